------------------------------ MODULE MetaApa ------------------------------
(***************************************************************************)
(* Unbounded supplement (Apalache) to spec/MetaStore.tla: what set_meta    *)
(* promises (SetPost) for EVERY store of at most four entries over ALL     *)
(* strings as keys and values - TLC checks it over small alphabets and     *)
(* every reachable store.  The store, the key and the value are left       *)
(* arbitrary by the initial predicate (Gen); the operators are those of    *)
(* spec/MetaDefs.tla, restated with the type annotations Apalache needs.   *)
(***************************************************************************)
EXTENDS Integers, Sequences, FiniteSets, Apalache

VARIABLES
  \* @type: Seq(<<Str, Str>>);
  store,
  \* @type: Str;
  key,
  \* @type: Str;
  val

\* @type: (Seq(<<Str, Str>>), Str) => Set(Int);
Positions(s, k) == {i \in DOMAIN s : s[i][1] = k}
Has(s, k) == Positions(s, k) # {}
FirstPos(s, k) == CHOOSE i \in Positions(s, k) : \A j \in Positions(s, k) : i <= j
Get(s, k) == IF Has(s, k) THEN s[FirstPos(s, k)][2] ELSE "<none>"
\* @type: (Seq(<<Str, Str>>), Str, Str) => Seq(<<Str, Str>>);
Set(s, k, v) == IF Has(s, k) THEN [s EXCEPT ![FirstPos(s, k)] = <<k, v>>] ELSE Append(s, <<k, v>>)
\* @type: (Seq(<<Str, Str>>), Str) => Seq(<<Str, Str>>);
Others(s, k) ==
  LET \* @type: (<<Str, Str>>) => Bool;
      keep(e) == e[1] # k
  IN SelectSeq(s, keep)

Init == store = Gen(4) /\ key = Gen(1) /\ val = Gen(1)
Next == UNCHANGED <<store, key, val>>

SetPost ==
  LET s2 == Set(store, key, val) IN
  /\ Get(s2, key) = val
  /\ \A i \in DOMAIN store : store[i][1] # key => Get(s2, store[i][1]) = Get(store, store[i][1])
  /\ Others(s2, key) = Others(store, key)
  /\ Len(s2) = Len(store) + (IF Has(store, key) THEN 0 ELSE 1)
  /\ Cardinality(Positions(s2, key)) = (IF Has(store, key) THEN Cardinality(Positions(store, key)) ELSE 1)
  /\ Set(s2, key, val) = s2
  /\ (val # "<none>" => Has(s2, key))
=============================================================================
