-------------------------------- MODULE Step --------------------------------
(***************************************************************************)
(* Unbounded supplement (Apalache): one time step of the electricity       *)
(* balance without load matching, for ALL natural numbers.  The initial    *)
(* predicate leaves use, nepb, pv, chp and the increment d arbitrary; the  *)
(* invariant is the per-step part of C01 (conservation, bounds), C12       *)
(* (priority of on-site over cogenerated electricity) and C14 (grid        *)
(* delivery and the produced energy used are monotone in the on-site       *)
(* production).  Division-free, so it is the same arithmetic as            *)
(* Balance!UsedProduced / ExportedDelivered restricted to f_match = 1.     *)
(***************************************************************************)
EXTENDS Integers

VARIABLES
  \* @type: Int;
  use,
  \* @type: Int;
  nepb,
  \* @type: Int;
  pv,
  \* @type: Int;
  chp,
  \* @type: Int;
  d

Min(a, b) == IF a <= b THEN a ELSE b
UsedPv(p, u) == Min(p, u)
UsedChp(p, c, u) == Min(c, u - Min(p, u))
Used(p, c, u) == UsedPv(p, u) + UsedChp(p, c, u)
Exp(p, c, u) == p + c - Used(p, c, u)
ExpN(p, c, u, n) == Min(Exp(p, c, u), n)
ExpG(p, c, u, n) == Exp(p, c, u) - ExpN(p, c, u, n)
Del(p, c, u) == u - Used(p, c, u)

Init == use \in Nat /\ nepb \in Nat /\ pv \in Nat /\ chp \in Nat /\ d \in Nat
Next == UNCHANGED <<use, nepb, pv, chp, d>>

Conservation ==
  /\ Used(pv, chp, use) + Exp(pv, chp, use) = pv + chp
  /\ ExpN(pv, chp, use, nepb) + ExpG(pv, chp, use, nepb) = Exp(pv, chp, use)
  /\ Used(pv, chp, use) + Del(pv, chp, use) = use
  /\ Used(pv, chp, use) >= 0 /\ Exp(pv, chp, use) >= 0 /\ ExpN(pv, chp, use, nepb) >= 0
  /\ ExpG(pv, chp, use, nepb) >= 0 /\ Del(pv, chp, use) >= 0
  /\ Used(pv, chp, use) <= Min(use, pv + chp)
  /\ ExpN(pv, chp, use, nepb) <= nepb
  /\ UsedPv(pv, use) <= pv /\ UsedChp(pv, chp, use) <= chp /\ UsedChp(pv, chp, use) >= 0
Priority ==
  /\ (UsedChp(pv, chp, use) > 0 => pv < use /\ UsedPv(pv, use) = pv)
  /\ UsedPv(pv, use) + UsedChp(pv, chp, use) <= use
Monotone ==
  /\ Del(pv + d, chp, use) <= Del(pv, chp, use)
  /\ Used(pv + d, chp, use) >= Used(pv, chp, use)
  /\ Exp(pv + d, chp, use) >= Exp(pv, chp, use)
Inv == Conservation /\ Priority /\ Monotone
=============================================================================
