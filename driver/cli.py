"""Execution of the real cteepbd binary (debug profile, built from /repo's working tree) and
projection of what it did to trace events.  Harness role: no comparison is made here."""
import concurrent.futures as cf
import json
import os
import re
import shutil
import subprocess
import tempfile

import vlib

TIMEOUT = 10

FACTORS_FILE = """#META CTE_FUENTE: verif
ELECTRICIDAD, RED, SUMINISTRO, A, 0.500, 2.000, 0.400
ELECTRICIDAD, INSITU, SUMINISTRO, A, 1.000, 0.000, 0.000
RED1, RED, SUMINISTRO, A, 0.300, 1.300, 0.330
RED2X, RED, SUMINISTRO, A, 0, 0, 0
""".replace("RED2X, RED, SUMINISTRO, A, 0, 0, 0\n", "")

BUILDING = """0, CONSUMO, ILU, ELECTRICIDAD, 10, 10
0, PRODUCCION, EL_INSITU, 30, 5
1, CONSUMO, CAL, RED1, 20, 20
2, CONSUMO, ACS, RED2, 15, 15
"""


def milli(x):
    try:
        return int(round(float(x) * 1000))
    except Exception:
        return None


def run_proc(argv, cwd, timeout=TIMEOUT, binary=None):
    """returns dict(exit=int | 'timeout' | 'signal:<n>', stdout, stderr)"""
    try:
        r = subprocess.run([binary or vlib.CLI_BIN] + argv, cwd=cwd, capture_output=True, timeout=timeout)
        code = r.returncode
        ex = code if code >= 0 else "signal:%d" % (-code)
        return dict(exit=ex, stdout=r.stdout.decode("utf-8", "replace"), stderr=r.stderr.decode("utf-8", "replace"))
    except subprocess.TimeoutExpired as e:
        # a hang is only declared after a second, much longer attempt: on a loaded machine a process that takes
        # milliseconds can miss the first deadline without hanging
        if timeout < 120:
            return run_proc(argv, cwd, timeout=120, binary=binary)
        return dict(exit="timeout", stdout=(e.stdout or b"").decode("utf-8", "replace"),
                    stderr=(e.stderr or b"").decode("utf-8", "replace"))


ORIGEN = [("area", re.compile(r"^Área de referencia \((\w+)\) \[m2\]: (\S+)", re.M)),
          ("kexp", re.compile(r"^Factor de exportación \((\w+)\) \[-\]: (\S+)", re.M)),
          ("fp", re.compile(r"^Factores de paso \((\w+)\): (.*)$", re.M))]


def project_value(v):
    """a metadata value as [kind, n, t, tri]: a number in thousandths, a triple of thousandths (the three spellings
    of RenNrenCo2), or the text itself"""
    v = v.strip()
    def num(x):
        m = milli(x)
        if m is None or abs(m) > 2000000000:
            raise ValueError(x)
        return m
    try:
        return {"kind": "num", "n": num(v), "t": "", "tri": []}
    except (ValueError, OverflowError):
        pass
    parts = [x.split(":")[-1].strip() for x in v.strip("(){} ").split(",")]
    if len(parts) == 3:
        try:
            return {"kind": "triple", "n": 0, "t": "", "tri": [num(x) for x in parts]}
        except (ValueError, OverflowError):
            pass
    return {"kind": "text", "n": 0, "t": v, "tri": []}


def meta_block(text):
    """the #META lines of a text, in order, as [key, projected value] (key and value cut at the first colon)"""
    out = []
    for line in text.splitlines():
        m = re.match(r"#META\s*([^:]*):(.*)$", line.strip())
        if m:
            out.append([m.group(1).strip(), project_value(m.group(2))])
    return out


def observe(res, d, fpath=None):
    """projection of a finished run: origin lines, --json and --oc extracts"""
    o = {"exit": res["exit"] if isinstance(res["exit"], int) else -1, "how": str(res["exit"]),
         "stderr_empty": res["stderr"].strip() == "", "origen": {}, "json": {}, "oc": {}}
    for k, rx in ORIGEN:
        m = rx.search(res["stdout"])
        if m:
            if k == "fp":
                par = m.group(2).strip()
                o["origen"][k] = {"origin": m.group(1), "param": "FILE" if fpath and par == fpath else par}
            else:
                o["origen"][k] = {"origin": m.group(1), "milli": milli(m.group(2))}
    jp = os.path.join(d, "out.json")
    o["json_written"] = os.path.exists(jp)
    if os.path.exists(jp):
        try:
            j = json.load(open(jp))
            o["json"]["k_exp"] = milli(j["k_exp"])
            o["json"]["arearef"] = milli(j["arearef"])
            for f in j["wfactors"]["wdata"]:
                if f["carrier"] in ("RED1", "RED2") and f["source"] == "RED" and f["dest"] == "SUMINISTRO" and f["step"] == "A":
                    o["json"][f["carrier"].lower()] = [milli(f["ren"]), milli(f["nren"]), milli(f["co2"])]
            a = j["balance"]["used"]["epus"]
            b = j["balance_m2"]["used"]["epus"]
            if b:
                o["json"]["m2ratio"] = milli(a / b)
            o["json"]["meta"] = {m["key"]: m["value"] for m in j["components"]["meta"]}
            o["json"]["valid"] = True
        except Exception as ex:
            o["json"] = {"valid": False, "error": str(ex)[:100]}
    op = os.path.join(d, "out.csv")
    if os.path.exists(op):
        o["oc_block"] = meta_block(open(op, encoding="utf-8", errors="replace").read())
        for line in open(op, encoding="utf-8", errors="replace"):
            m = re.match(r"#META\s+(\w+):\s*(.*)$", line.strip())
            if m:
                key, val = m.group(1), m.group(2)
                if key in o["oc"]:
                    continue          # a repeated key: the first one is the one a reader of the file uses
                if key in ("CTE_AREAREF", "CTE_KEXP"):
                    o["oc"][key] = milli(val)
                elif key in ("CTE_RED1", "CTE_RED2"):
                    o["oc"][key] = [milli(x) for x in val.split(",")]
                else:
                    o["oc"][key] = val
    return o


def spell_number(text, variant):
    """another spelling of the same decimal number (texts that are no plain decimal number are left alone)"""
    if not re.fullmatch(r"-?\d+(\.\d+)?", text) or variant == 0:
        return text
    neg, body = text.startswith("-"), text.lstrip("-")
    if variant == 2 and not neg:
        return "+" + body
    if variant == 3:
        return text + ("0" if "." in body else ".0")
    ip, _, fp = body.partition(".")
    digits = (ip + fp).lstrip("0") or "0"
    return ("-" if neg else "") + digits + ("e-%d" % len(fp) if variant == 1 and neg is False else "E-%d" % len(fp))


def c19_case(rec, root):
    """builds files + argv for one Cli.tla configuration, runs it, returns the trace event"""
    c = rec["cfg"]
    d = tempfile.mkdtemp(dir=root)
    V = {"a": {"valid": "2.25", "fine": "0.004", "edge": "0.001", "range": "-3", "text": "abc"},
         "am": {"valid": "4.75", "fine": "1.234", "edge": "0.001", "range": "0", "text": "xyz"},
         "k": {"valid": "0.25", "fine": "0.125", "edge": "1", "range": "1.5", "text": "abc"},
         "km": {"valid": "0.35", "fine": "0.375", "edge": "0", "range": "-0.1", "text": "k"}}
    # non-numeric text: a word, or the spelling of "not a number" that a float parser accepts
    if rec.get("case", 0) % 3 == 1:
        V = {k: dict(v) for k, v in V.items()}
        V["a"]["text"], V["am"]["text"], V["k"]["text"], V["km"]["text"] = "NaN", "nan", "NaN", "nan"
    elif rec.get("case", 0) % 3 == 2:
        # ... or no text at all (an empty value)
        V = {k: dict(v) for k, v in V.items()}
        V["a"]["text"], V["am"]["text"], V["k"]["text"], V["km"]["text"] = "", "", "", ""
    # spelling of the numbers (options and metadata): plain decimals, exponent notation, an explicit plus sign, a
    # trailing zero - the same number for a float parser, in range or out of range all the same
    V = {k: {st: spell_number(val, (rec.get("case", 0) // 9 + i) % 4) for st, val in v.items()} for i, (k, v) in enumerate(sorted(V.items()))}
    meta = []
    legacy = c.get("legacy", False)
    if c["ameta"] != "absent":
        meta.append(("#META Area_ref: " if legacy else "#META CTE_AREAREF: ") + V["am"][c["ameta"]])
    if c["kmeta"] != "absent":
        meta.append(("#META kexp: " if legacy else "#META CTE_KEXP: ") + V["km"][c["kmeta"]])
    if c["lmeta"] != "absent":
        meta.append(("#META Localizacion: " if legacy else "#META CTE_LOCALIZACION: ") + c["lmeta"])
    # a valid RED1 / RED2 metadata value in one of the spellings RenNrenCo2::from_str reads
    # (plain triple, parenthesised, braces with keys), chosen by the case number
    sp = rec.get("case", 0) % 3
    r1v = ["0.2, 1.2, 0.22", "(0.2, 1.2, 0.22)", "{ ren: 0.200, nren: 1.200, co2: 0.220 }"][sp]
    r2v = ["0.25, 1.25, 0.225", "( 0.25 ,1.25, 0.225 )", "{ren: 0.25, nren: 1.25, co2: 0.225}"][(sp + 1) % 3]
    if c["r1meta"] != "absent":
        meta.append("#META CTE_RED1: " + (r1v if c["r1meta"] == "valid" else "bad"))
    if c["r2meta"] != "absent":
        meta.append("#META CTE_RED2: " + (r2v if c["r2meta"] == "valid" else "bad"))
    # metadata the program has no use for - a free key first, and in some files a second CTE_KEXP line after the
    # others (the first one is the one that counts): both stay where they are in the emitted components
    meta.insert(0, "#META Nombre: edificio 7")
    if c["kmeta"] != "absent" and rec.get("case", 0) % 4 == 0:
        meta.append("#META CTE_KEXP: 0.9")
    # spelling of the metadata lines: the blanks around the key, the colon and the value are free
    sv = (rec.get("case", 0) // 27) % 3
    if sv == 1:
        meta = [m.replace(": ", ":", 1) for m in meta]
    elif sv == 2:
        meta = [m.replace("#META ", "#META   ", 1).replace(": ", " :   ", 1) + "  " for m in meta]
    # position of the metadata lines in the file (the parser reads them wherever they are): before the data,
    # after a column-header line and the first data line, or at the end of the file
    pos = (rec.get("case", 0) // 3) % 3
    blines = BUILDING.strip().split("\n")
    if pos == 0:
        text = "\n".join(meta + blines)
    elif pos == 1:
        text = "\n".join(["vector, tipo, src_dst, valores", blines[0]] + meta + blines[1:])
    else:
        text = "\n".join(blines + meta)
    open(os.path.join(d, "in.csv"), "w").write(text + "\n")
    argv = ["-c", "in.csv", "--json", "out.json", "--oc", "out.csv"]
    fpath = None
    if c["ffile"]:
        open(os.path.join(d, "fp.csv"), "w").write(FACTORS_FILE)
        fpath = "fp.csv"
        argv += ["-f", fpath]
    if c["lopt"] != "absent":
        argv += ["-l", c["lopt"]]
    if c["aopt"] != "absent":
        argv += ["--arearef=" + V["a"][c["aopt"]]]
    if c["kopt"] != "absent":
        argv += ["--kexp=" + V["k"][c["kopt"]]]
    if c["r1opt"] == "default":
        argv += ["--red1"] + [["0", "1.3", "0.3"], ["0.0", "1.30", "0.300"]][rec.get("case", 0) % 2]      # the documented default, given explicitly
    elif c["r1opt"] != "absent":
        argv += ["--red1", "0.1", "1.1" if c["r1opt"] == "valid" else ["x", "NaN", ""][rec.get("case", 0) % 3], "0.11"]
    if c["r2opt"] == "default":
        argv += ["--red2"] + [["0.0", "1.30", "0.300"], ["0", "1.3", "0.3"]][rec.get("case", 0) % 2]
    elif c["r2opt"] != "absent":
        argv += ["--red2", "0.15", "1.15" if c["r2opt"] == "valid" else ["nan", "", "x"][rec.get("case", 0) % 3], "0.115"]
    if c.get("verbose"):
        argv += ["-" + "v" * int(c["verbose"])]
    res = run_proc(argv, d)
    ev = {"ev": "Cli", "case": rec["case"], "tag": "cli", "cfg": c, "argv": argv, "obs": observe(res, d, fpath), "meta_in": meta_block(text)}
    shutil.rmtree(d, ignore_errors=True)
    return ev


def clean(x):
    """TLC's Json module has no null: absent numbers become the sentinel -999999"""
    if x is None:
        return -999999
    if isinstance(x, dict):
        return {k: clean(v) for k, v in x.items()}
    if isinstance(x, list):
        return [clean(v) for v in x]
    if isinstance(x, float):
        return int(round(x))
    return x


def run_many(fn, recs, trace_path, workers=None):
    root = os.path.join(vlib.WORK, "cli-tmp")
    os.makedirs(root, exist_ok=True)
    with cf.ThreadPoolExecutor(max_workers=workers or vlib.NCPU) as ex, open(trace_path, "w") as f:
        for ev in ex.map(lambda r: fn(r, root), recs):
            if isinstance(ev, list):
                for e in ev:
                    f.write(json.dumps(clean(e)) + "\n")
            else:
                f.write(json.dumps(clean(ev)) + "\n")
    shutil.rmtree(root, ignore_errors=True)


FAULT_BUILDING = """0, CONSUMO, ILU, ELECTRICIDAD, 4, 6
0, PRODUCCION, EL_INSITU, 9, 1
1, CONSUMO, CAL, GASNATURAL, 5, 5
0, CONSUMO, NEPB, ELECTRICIDAD, 1, 1
3, PRODUCCION, EL_COGEN, 2, 2
3, CONSUMO, COGEN, GASNATURAL, 7, 7
"""


def fault_bytes(lines):
    out = b""
    for ln in lines:
        out += b",".join(t.replace("<NA>", "ñ€").replace("<CM>", '# ñ>€"ñ&<\\').replace("<L20>", "ñ" * 150).replace("<L21>", "x" + "ñ" * 150)
                        .replace("<L30>", "€" * 100).replace("<L31>", "x" + "€" * 100).replace("<L32>", "xx" + "€" * 100).encode("utf-8").replace(b"<FF>", b"\xff") for t in ln) + b"\n"
    return out


def fault_cli_case(rec, root):
    """the real program on the bytes of one MC_C16 file (default path: factors are simplified), or on a valid
    text, or with one numeric option replaced by an atom"""
    d = tempfile.mkdtemp(dir=root)
    kind = rec.get("kind", "comps")
    argv = []
    if kind == "comps":
        open(os.path.join(d, "in.csv"), "wb").write(fault_bytes(rec["lines"]))
        argv = ["-c", "in.csv", "-l", "PENINSULA", "--json", "o.json", "--xml", "o.xml", "--txt", "o.txt", "--oc", "oc.csv", "--of", "of.csv"]
    elif kind == "factors":
        open(os.path.join(d, "in.csv"), "w").write(FAULT_BUILDING)
        open(os.path.join(d, "fp.csv"), "wb").write(fault_bytes(rec["lines"]))
        argv = ["-c", "in.csv", "-f", "fp.csv", "--json", "o.json", "--xml", "o.xml"]
    elif kind == "text":
        open(os.path.join(d, "in.csv"), "w").write(rec["text"])
        argv = ["-c", "in.csv", "-l", rec.get("loc", "PENINSULA"), "--json", "o.json", "--xml", "o.xml", "--txt", "o.txt"] + rec.get("extra", [])
    elif kind == "option":
        open(os.path.join(d, "in.csv"), "w").write(FAULT_BUILDING)
        argv = ["-c", "in.csv", "-l", "PENINSULA"] + rec["argv"]
    res = run_proc(argv, d)
    shutil.rmtree(d, ignore_errors=True)
    return {"ev": "FaultCli", "case": rec["case"], "tag": "cli", "kind": kind, "base": rec.get("base", 0), "argv": argv[4:] if kind == "option" else [],
            "how": str(res["exit"]), "stderr_empty": res["stderr"].strip() == "",
            "stderr_head": res["stderr"].strip()[:80]}


PROG_FACTORS = """#META CTE_FUENTE: verif
ELECTRICIDAD, RED, SUMINISTRO, A, 0.500, 2.000, 0.400
ELECTRICIDAD, INSITU, SUMINISTRO, A, 1.000, 0.000, 0.000
GASNATURAL, RED, SUMINISTRO, A, 0.005, 1.190, 0.252
"""


STALE_MARK = "documento-de-una-ejecucion-anterior"
STALE_DOC = ("# %s\n" % STALE_MARK) * 8000          # some 300 kB: longer than any document of the small building


def prog_case(rec, root):
    """realises one configuration of spec/Program.tla (inputs present / missing / a directory / empty / not a
    components file; factor source; each output absent / writable / in a directory that does not exist; flags),
    runs the real program and records how it ended and what it left behind"""
    c = rec["cfg"]
    d = tempfile.mkdtemp(dir=root)
    argv = []
    comps = {"valid": FAULT_BUILDING, "empty": "", "metaonly": "#META CTE_AREAREF: 10\n", "remarks": "# nada\n\n# nada\n",
             "garbage": "hola, mundo\n", "needsfactor": FAULT_BUILDING + "5, CONSUMO, CAL, GASOLEO, 1, 1\n"}
    if c["comps"] in comps:
        open(os.path.join(d, "in.csv"), "w").write(comps[c["comps"]])
        argv += ["-c", "in.csv"]
    elif c["comps"] == "missing":
        argv += ["-c", "no-such-file.csv"]
    elif c["comps"] == "dir":
        os.mkdir(os.path.join(d, "adir"))
        argv += ["-c", "adir"]
    f = c["fsrc"]
    if f == "loc":
        argv += ["-l", "PENINSULA"]
    elif f == "badloc":
        argv += ["-l", "MARTE"]
    elif f == "file":
        open(os.path.join(d, "fp.csv"), "w").write(PROG_FACTORS + "GASOLEO, RED, SUMINISTRO, A, 0.003, 1.179, 0.311\n")
        argv += ["-f", "fp.csv"]
    elif f == "fileincomplete":
        open(os.path.join(d, "fp.csv"), "w").write(PROG_FACTORS)
        argv += ["-f", "fp.csv"]
    elif f == "filebad":
        open(os.path.join(d, "fp.csv"), "w").write("esto no es, un factor de paso\n")
        argv += ["-f", "fp.csv"]
    elif f == "filemissing":
        argv += ["-f", "no-such-factors.csv"]
    names = {"oc": "oc.csv", "of": "of.csv", "json": "o.json", "xml": "o.xml", "txt": "o.txt"}
    for o in ("json", "oc", "txt", "of", "xml"):          # the order of the options on the command line is not the order of main()
        st = c["out"][o]
        if st == "ok":
            argv += ["--" + o, names[o]]
        elif st == "over":
            # the path already holds a document of an earlier run, longer than anything this run writes
            open(os.path.join(d, names[o]), "w").write(STALE_DOC)
            argv += ["--" + o, names[o]]
        elif st == "nodir":
            argv += ["--" + o, os.path.join("no-such-dir", names[o])]
    if c["license"]:
        argv += ["-L"]
    if c["lm"]:
        argv += ["--load_matching"]
    if c["v"]:
        argv += ["-" + "v" * int(c["v"])]
    res = run_proc(argv, d)
    def content(o):
        try:
            return open(os.path.join(d, names[o]), encoding="utf-8", errors="replace").read()
        except OSError:
            return None
    # written: the file exists and is not the document the path held before; stale: the mark of that document is found in it
    written = [o for o in names if content(o) is not None and content(o) != (STALE_DOC if c["out"][o] == "over" else None)]
    stale = [o for o in names if content(o) is not None and STALE_MARK in content(o)]
    ev = {"ev": "Prog", "case": rec["case"], "tag": "cli", "cfg": c, "argv": argv, "how": str(res["exit"]),
          "stderr_empty": res["stderr"].strip() == "", "stderr_head": res["stderr"].strip()[:80],
          "written": written, "stale": stale, "printed": "C_ep [kWh/m2.an]" in res["stdout"]}
    shutil.rmtree(d, ignore_errors=True)
    return ev
