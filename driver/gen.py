"""Seeded generator of valid random buildings for the I->S direction (inputs only, no oracle).
Values are 0 or 0.01..5000 kWh with two decimals; 1-12 steps; 1-4 systems; any mix of kinds."""
import random

EPB = ["ACS", "CAL", "REF", "VEN", "ILU"]
FUELS = ["GASNATURAL", "BIOMASA", "GASOLEO", "GLP", "CARBON", "BIOCARBURANTE", "BIOMASADENSIFICADA", "RED1", "RED2"]


def val(r, big=5000.0):
    if r.random() < 0.2:
        return 0.0
    import math
    x = math.exp(r.uniform(math.log(0.01), math.log(big)))
    return max(0.01, round(x, 2))


def vec(r, n, big=5000.0, mode=None):
    mode = mode or r.choice(["rand", "rand", "const", "sparse"])
    if mode == "const":
        v = val(r, big) or 1.0
        return [v] * n
    if mode == "sparse":
        return [val(r, big) if r.random() < 0.4 else 0.0 for _ in range(n)]
    return [val(r, big) for _ in range(n)]


def comp(kind, id=0, cr="-", srv="-", src="-", v=None, cm=""):
    return {"kind": kind, "id": id, "cr": cr, "srv": srv, "src": src, "v": v, "cm": cm}


def building(r, integer=False, aux=False, max_steps=12, steps=None):
    n = steps or (r.choice([1, 2, 3, 4, 5, 12, 13, 24]) if max_steps >= 12 else r.randint(1, max_steps))
    comps = []
    nsys = r.randint(1, 4)
    big = 40 if integer else 5000.0
    def V(mode=None):
        v = vec(r, n, big, mode)
        return [float(round(x)) for x in v] if integer else v
    for sid in range(1, nsys + 1):
        kind = r.choice(["boiler", "hp", "solar", "joule", "district"])
        srvs = r.sample(["ACS", "CAL", "REF"], r.randint(1, 2))
        for s in srvs:
            if kind == "boiler":
                comps.append(comp("USED", sid, r.choice(FUELS[:7]), s, v=V()))
            elif kind == "hp":
                comps.append(comp("USED", sid, "ELECTRICIDAD", s, v=V()))
                comps.append(comp("USED", sid, "EAMBIENTE", s, v=V()))
            elif kind == "solar":
                comps.append(comp("USED", sid, "TERMOSOLAR", s, v=V()))
                comps.append(comp("USED", sid, r.choice(FUELS[:4]), s, v=V()))
            elif kind == "joule":
                comps.append(comp("USED", sid, "ELECTRICIDAD", s, v=V()))
            else:
                comps.append(comp("USED", sid, r.choice(["RED1", "RED2"]), s, v=V()))
        if kind in ("hp", "solar") and r.random() < 0.4:
            # declared (partial or surplus) production of the renewable carrier
            comps.append(comp("PROD", sid, src="EAMBIENTE" if kind == "hp" else "TERMOSOLAR", v=V()))
        if aux and r.random() < 0.5:
            comps.append(comp("AUX", sid, v=V()))
            if len(srvs) > 1:
                for s in srvs:
                    q = V("const")
                    if s == "REF":
                        q = [-x for x in q]
                    if r.random() < 0.3:
                        # the output of one service declared on two lines
                        a = [float(int(x / 3)) if integer else round(x / 3, 2) for x in q]
                        comps.append(comp("OUT", sid, srv=s, v=a))
                        comps.append(comp("OUT", sid, srv=s, v=[(x - y) if integer else round(x - y, 2) for x, y in zip(q, a)]))
                    else:
                        comps.append(comp("OUT", sid, srv=s, v=q))
    if r.random() < 0.7:
        comps.append(comp("USED", 0, "ELECTRICIDAD", r.choice(["ILU", "VEN"]), v=V()))
    if r.random() < 0.6:
        comps.append(comp("PROD", 0, src="EL_INSITU", v=V()))
    if r.random() < 0.4:
        fuel = r.choice(["GASNATURAL", "BIOMASA", "GASOLEO"])
        comps.append(comp("PROD", 9, src="EL_COGEN", v=V("rand")))
        comps.append(comp("USED", 9, fuel, "COGEN", v=[x + (1.0 if integer else 0.5) for x in V("rand")]))
        if r.random() < 0.3:
            comps.append(comp("USED", 9, "BIOMASA" if fuel != "BIOMASA" else "GASNATURAL", "COGEN", v=V("sparse")))
        if aux and r.random() < 0.3:
            comps.append(comp("AUX", 9, v=V("const")))       # auxiliaries of the cogenerator
        if r.random() < 0.15:
            comps.append(comp("USED", 9, "ELECTRICIDAD", "COGEN", v=V("const")))   # electricity taken by the cogenerator as an input
    if r.random() < 0.4:
        comps.append(comp("USED", 0, "ELECTRICIDAD", "NEPB", v=V()))
    if r.random() < 0.15:
        comps.append(comp("USED", 0, r.choice(["GASNATURAL", "EAMBIENTE"]), "NEPB", v=V()))
    def need(srv, v):
        # a demand may be declared on several lines (they add up); the first ones may be negative or cancel out
        if r.random() < 0.3:
            first = [-(float(round(x / 2)) if integer else round(x / 2, 2)) for x in v] if r.random() < 0.5 else [0.0] * n
            comps.append(comp("NEED", srv=srv, v=first))
            comps.append(comp("NEED", srv=srv, v=[(x - y) if integer else round(x - y, 2) for x, y in zip(v, first)]))
        else:
            comps.append(comp("NEED", srv=srv, v=v))
    if r.random() < 0.5:
        need("ACS", V("const"))
    if r.random() < 0.3:
        need("CAL", V())
    if r.random() < 0.2:
        need("REF", [-x for x in V()])                      # cooling needs are negative
    r.shuffle(comps)
    return comps


def cases(seed, count, runs, integer=False, aux=False, locs=("PENINSULA", "BALEARES", "CANARIAS", "CEUTAMELILLA"), max_steps=12, steps=None):
    r = random.Random(seed)
    for i in range(count):
        fac = {"mode": "loc", "loc": r.choice(list(locs))}
        if r.random() < 0.3:
            ren, nren = r.choice([(0, 1300), (500, 1300), (1000, 0), (500, 500), (1000, 2000), (0, 2000)])
            fac["red1"] = [ren, nren, r.choice([0, 300])]     # (a district network always has some primary energy)
        yield {"name": "random-%d-%d" % (seed, i), "src": {"comps": building(r, integer, aux, max_steps, steps)}, "fac": fac,
               "kexp": r.choice([[0, 1], [1, 1], [1, 2], [3, 10]]), "area": r.choice([[1, 1], [5, 2], [200, 1], [1, 2]]),
               "lm": r.random() < 0.5, "runs": runs(r) if callable(runs) else runs}
