#!/usr/bin/env python3
"""Regenerates /verif/MANIFEST.json from the table below (run after adding a check)."""
import json, os, sys
ROOT = os.path.dirname(os.path.dirname(os.path.abspath(__file__)))
ALL = ["C%02d" % i for i in range(1, 20)]

MC_NOTE = ("Assumes: TLC 1.8 / SANY / CommunityModules Json+IOUtils, rustc/cargo, serde_json, the harness writer, "
           "lexers and flattener (harness/src), the python driver, the f32 tolerance rule of DESIGN.md section 3 "
           "(no property is decided at f32 rounding accuracy) and the small-scope bounds stated in the evidence file.")

CHECKS = {
 "C02": dict(
   text="Bounded exhaustive model checking of the TLA+ balance specification (spec/Balance.tla: an independent exact-rational "
        "evaluation of EN ISO 52000-1 (2),(9)-(14),(20)-(28),(32)) over a lattice of buildings, with every TLC-enumerated case "
        "replayed on the real library and every numeric field of the returned EnergyPerformance validated by TLC against the "
        "specification (trace validation, both binding directions). Exhaustive within the lattice, sampled (shipped files) beyond it.",
   design="5/C02", technique="TLA+ spec (exact rationals) + TLC enumeration + trace validation of energy_performance results"),
}

def main():
    hooks_commit = os.popen("git -C /repo log --format=%h --grep='^verif:' ").read().split()
    checks = []
    for pid in ALL:
        if pid not in CHECKS:
            continue
        c = CHECKS[pid]
        checks.append({
          "property_id": pid,
          "quick_cmd": "./check %s --tier quick" % pid,
          "thorough_cmd": "./check %s --tier thorough" % pid,
          "evidence_file": "evidence/%s.json" % pid,
          "replay_cmd_template": "./check %s --replay {path}" % pid,
          "engine": "tlc",
          "level_claimed": {"category": c.get("category", "model_checking"), "text": c["text"], "design_ref": "DESIGN.md section " + c["design"]},
          "level_note": c.get("note", MC_NOTE),
          "technique": c["technique"],
        })
    na = [{"property_id": p, "reason": NA.get(p, "check under construction (DESIGN.md section 9); not yet claimed")} for p in ALL if p not in CHECKS]
    m = {"version": 1,
         "setup_cmd": "./check --setup",
         "hooks": {"guard": "cargo feature verif_hooks (cteepbd/Cargo.toml [features]); all hook code is #[cfg(feature = \"verif_hooks\")]",
                   "enable": "the harness depends on cteepbd by path (/repo) with features = [\"verif_hooks\"]; cd /verif/harness && cargo build --offline",
                   "baseline_off_cmd": "cd /repo && cargo test --workspace --no-fail-fast --offline",
                   "source_commits": hooks_commit, "add_only": True},
         "engines": [{"name": "tlc", "path": "/verif/check", "serves_properties": [c["property_id"] for c in checks],
                      "kind_free_text": "explicit TLA+ specification (/verif/spec) checked by TLC; conformance harness (/verif/harness) replays TLC-generated cases on the real code and TLC validates the recorded traces (/verif/trace)"}],
         "checks": checks,
         "not_applicable": na,
         "notes": "Model-based verification with an explicit TLA+ specification; see DESIGN.md. Known findings: known_findings.json."}
    json.dump(m, open(os.path.join(ROOT, "MANIFEST.json"), "w"), indent=1)
    print("MANIFEST.json:", len(checks), "checks,", len(na), "not claimed")

NA = {}
if __name__ == "__main__":
    main()
