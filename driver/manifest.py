#!/usr/bin/env python3
"""Regenerates /verif/MANIFEST.json from the table below (run after adding a check)."""
import json, os, sys
ROOT = os.path.dirname(os.path.dirname(os.path.abspath(__file__)))
ALL = ["C%02d" % i for i in range(1, 20)]

MC_NOTE = ("Assumes: TLC 1.8 / SANY / CommunityModules Json+IOUtils, rustc/cargo, serde_json, the harness writer, "
           "lexers and flattener (harness/src), the python driver, the f32 tolerance rule of DESIGN.md section 3 "
           "(no property is decided at f32 rounding accuracy) and the small-scope bounds stated in the evidence file.")

BOTH = (" TLC enumerates the cases on a small lattice (exhaustive within the stated value sets) and checks the property on the "
        "specification itself; every enumerated case is replayed on the real library and TLC validates the recorded trace, evaluating the "
        "property's predicates (written in TLA+) at every event; shipped files and seeded random buildings extend the traces beyond the lattice.")

CHECKS = {
 "C01": dict(text="Bounded model checking of the balance specification against the abstract conservation specification P_C01 plus trace validation of every per-step flow of the real library against P_C01." + BOTH,
   design="5/C01", technique="TLA+ abstract spec P_C01 + TLC (MC_C02!Conservation) + trace validation of per-step flows"),
 "C02": dict(
   text="Bounded exhaustive model checking of the TLA+ balance specification (spec/Balance.tla: an independent exact-rational "
        "evaluation of EN ISO 52000-1 (2),(9)-(14),(20)-(28),(32)) over a lattice of buildings, with every TLC-enumerated case "
        "replayed on the real library and every numeric field of the returned EnergyPerformance validated by TLC against the "
        "specification (trace validation, both binding directions). Exhaustive within the lattice, sampled (shipped files) beyond it.",
   design="5/C02", technique="TLA+ spec (exact rationals) + TLC enumeration + trace validation of energy_performance results"),
 "C03": dict(text="Session histories of five evaluations at different k_exp: exact affine identity checked by TLC on the specification (MC_C02!CheckK) and, on traces of the real library, on every step-B path." + BOTH,
   design="5/C03", technique="TLA+ history spec (SetKexp) + TLC invariant CheckK + trace validation of k_exp histories"),
 "C04": dict(text="The aggregation schema (every path of Balance = sum of per-carrier paths; breakdowns; per-m2 = absolute / area) is data of the TLA+ trace specification and is checked by TLC on every path of every recorded evaluation, over histories with four areas." + BOTH,
   design="5/C04", technique="TLA+ aggregation schema + trace validation of every Balance path over area histories"),
 "C05": dict(text="The normalisation of a parsed file is specified as a TLA+ state machine (spec/Components.tla: one action per visited system id, order left open). TLC explores EVERY schedule on a family of files (tuples of system profiles, negative and shared ids) and checks confluence, the closed form max(0, use - declared), preservation of declared lines and idempotence; every file is parsed by the real parser under several hash orders recorded by the hooks, and TLC validates each recorded normalisation step by step against the state machine and evaluates the closed forms on (declared, parsed). Demand lines have their own small state machine (AddNeed per DEMANDA line, closed form DeclaredNeed): MC_Comp!DemandKept at model level, TraceComp!DemandsKept on the declared lines logged by the harness.",
   design="5/C05", technique="TLA+ state machine of normalize() + TLC over all schedules + trace validation of hook-recorded normalisations"),
 "C06": dict(text="Abstract specification P_C06 (per system and step conservation of auxiliary energy, no negative share, proportionality to |Q|) checked by TLC on the normalisation state machine over all schedules (MC_Comp, 1-3 systems) and on every recorded normalisation and evaluation of the real library (Parse and Eval events).",
   design="5/C06", technique="TLA+ abstract spec P_C06 + TLC over all schedules + trace validation of Parse/Eval events"),
 "C07": dict(text="The exponential family of factor files is enumerated completely by TLC: every subset of a universe of candidate lines (all values distinct) x user RED1/RED2 given or not, plus a duplicated-key variant and the four locations. TLC checks respect of user values, provenance of export defaults, precedence, idempotence, rejection and completeness (every look-up of every building shape satisfied) on spec/Factors.tla, and every file is prepared by the real library and judged by TLC on (file, prepared list); building shapes are evaluated with the prepared sets and the Find hook binds Balance!NeededKeys to the code.",
   design="5/C07", technique="TLA+ Factors spec + TLC over all subsets of factor lines + trace validation of Prepare/Eval events"),
 "C08": dict(text="Session histories Evaluate(full) ; Strip ; Evaluate(stripped): TLC checks on the specification that Factors!Strip keeps every key an evaluation looks up (MC_C02!CheckStrip) and, on traces of the real library, that outcome and every field are unchanged and nothing panics." + BOTH,
   design="5/C08", technique="TLA+ Factors!Strip + TLC invariant CheckStrip + trace validation of full/stripped histories"),
 "C09": dict(text="Session transforms Permute / Subdivide: checked exactly on the specification for all permutations and m in {2,3} (MC_C09!CheckLayout); on the real library the transformed input is bound to the specification's transform and annual fields / per-step vectors are compared by TLC." + BOTH,
   design="5/C09", technique="TLA+ Session transforms + TLC invariant CheckLayout + trace validation of layout histories"),
 "C10": dict(text="TextFormat.tla models a file at token level with the rewriting actions of the property; TLC explores every rewriting sequence up to depth 2 (3) from four base files and checks that the declaration (Denote) and the normalised declaration are preserved; every reachable file is written, parsed and evaluated by the real code and TLC compares each evaluation with its base. The schedule part (hash iteration orders) is MC_Comp!Confluent over all id orders at model level and repeated parse+evaluate runs whose orders are recorded by the hooks.",
   design="5/C10", technique="TLA+ token-level file model + TLC over rewriting sequences + trace validation of rewritten / repeated evaluations"),
 "C11": dict(text="Session transforms Scale(c) / SetArea: homogeneity checked exactly on the specification (MC_C09!CheckLayout, integer scalings) and, on traces of the real library logged in units of c, as equality of every energy path, invariance of ratios, f_match and the DHW fraction." + BOTH,
   design="5/C11", technique="TLA+ Session transforms + TLC invariant (ScaleInt) + trace validation of scaled histories"),
 "C12": dict(text="Abstract specification P_C12 (priority of on-site over cogenerated electricity, formula (32), effect of load matching) checked by TLC on the specification (MC_C02!CheckPrio) and on two-evaluation histories (load matching off/on) of the real library." + BOTH,
   design="5/C12", technique="TLA+ abstract spec P_C12 + TLC invariant CheckPrio + trace validation of off/on histories"),
 "C13": dict(text="RER is a proper fraction and perimeters are nested: TLC invariant MC_C02!CheckRer on the specification (perimeter formulas as implemented, two named known-finding weakenings) and the same predicates evaluated by TLC on every recorded evaluation with regulatory factors at k_exp = 0." + BOTH,
   design="5/C13", technique="TLC invariant CheckRer + trace validation of rer / rer_nrb / rer_onst"),
 "C14": dict(text="Session histories Evaluate ; AddPv(delta) ; Evaluate: TLC enumerates buildings x increments (MC_C14, regulatory sets), checks monotonicity exactly on the specification and the pairs are replayed on the real library and judged by TLC (Trace_C14)." + BOTH,
   design="5/C14", technique="TLA+ history spec (AddPv) + TLC invariant CheckMono + trace validation of pairs"),
 "C15": dict(text="spec/Acs.tla transcribes the DHW renewable-share indicator branch by branch; TLC enumerates the supply mixes x other services x non-EPB use x auxiliaries x demand classes and checks range, closed forms of the canonical mixes, the invariances and the error classes on the specification (MC_C15); the mixes are replayed on the real library and TLC recomputes the fraction from the logged inputs (value or error class), checks the misc keys and the invariance over histories (k_exp, scaling, load matching).",
   design="5/C15", technique="TLA+ transcription of the indicator + TLC enumeration of supply mixes + trace validation (recomputation and histories)"),
 "C16": dict(category="fault_enumeration",
   text="Model-driven fault enumeration: spec/Faults.tla defines the token-level corruption actions and TLC enumerates every fault (quick) / every fault pair (thorough) from components and factor files over an alphabet of atoms, plus token soups; each text is run through every public library entry point (catch_unwind) and through the real program, with valid texts of every kind and option atoms; the oracle is the terminal-state set of the specification (Trace_C16): Ok / typed error, deliberate exit code with stderr - Panic, signal, timeout are not states. This is the right level because the property is the absence of a bad terminal state over a generated input space, not a functional relation. The program itself is a sequential state machine in spec/Program.tla (one action per stage of main(), each ending with a deliberate code or going on); TLC checks TerminalOk and Progress on it from every configuration of inputs (missing, a directory, empty, metadata only, remarks only, not a components file), factor sources, writable / unwritable outputs and flags, and every configuration is realised and run by the real binary (Trace_Prog16: terminal state VERDICT, exit code / files written / report against Program!Outcome as DRIFT). The spellings of a (ren, nren, co2) triple are a token-level grammar of their own (spec/Triple.tla, ParseTriple transcribed from RenNrenCo2::from_str): every text TLC builds is read by from_str and get_meta_rennren - a panic is a verdict, another outcome than the specification's is DRIFT.",
   design="5/C16", technique="TLA+ fault actions + TLC enumeration of fault sequences + terminal-state trace oracle"),
 "C17": dict(text="spec/Output.tla models the three renderings as token streams: a pushdown acceptor for the XML subset (plus element counts and numeric leaves), a table from every entry of the plain report to the path of the value it prints, and the flattened JSON. TLC enumerates the free-text strings (all sequences of at most 2 / 3 atoms incl. markup characters, quotes, backslash, non-ASCII) and checks the escaping at atom level; the real renderings of lattice buildings, random buildings, shipped files and every enumerated string - and the documents the real program writes, on fresh paths and over paths that already hold longer documents - are lexed by the harness and judged by TLC. spec/Program.tla states that writing an output REPLACES what the path held (FreshWhenWritten, checked by TLC from every configuration incl. existing output files) and the real binary is run from those configurations (Trace_Prog17).",
   design="5/C17", technique="TLA+ token-stream model (pushdown acceptor, report table) + TLC enumeration of strings + trace validation of lexed outputs"),
 "C18": dict(text="TextFormat.tla specifies Print / Parse of every kind of component line; TLC checks Parse(Print(c)) = c for every kind, id and tag (MC_C18). On the real library a RoundTrip event records a set written with Display, its tokenised lines and the re-read set: TLC judges the printed lines against TextFormat!PrintLine, metadata / components / demands / factors of the re-read sets at the printed precision, and the Session history Evaluate ; SaveReload ; Evaluate - also through the real program (--oc --of, second run on the saved files, third run on the saved components alone with the recorded location / area / k_exp / user factors). The metadata block is a state machine of its own (spec/MetaStore.tla: LoadText, SetMeta, SaveReload with the promises SetPost / LoadPost / ReloadPost as TLC invariants; Apalache proves SetPost for all strings in the thorough tier); every behaviour TLC enumerates is executed on a real Components and a real Factors value and Trace_Meta compares the store and the get_meta / has_meta answers after every operation.",
   design="5/C18", technique="TLA+ Print/Parse spec + TLC round-trip invariant + trace validation of save/reload histories (library and CLI)"),
 "C19": dict(text="spec/Cli.tla is a finite model of option / metadata / default resolution and exit codes; TLC enumerates its configuration space (complete product in the thorough tier) and every configuration is executed by the real binary; TLC judges exit code, origin lines, effective values in --json, write-back in --oc (area, k_exp, RED1, RED2 and the location) and the per-m2 ratio against Cli!Allowed (set-valued where the statement is silent); accepted values include three-decimal ones (echo and write-back judged at the printed precision, the value used exactly); the whole metadata block of the emitted components is compared with MetaDefs!Recorded (DRIFT). The clause 'no result when refused' is also checked on the program state machine of spec/Program.tla (NoResultWhenRefused at model level, Trace_Prog19 on real runs of every configuration).",
   design="5/C19", technique="finite TLA+ model of the CLI + TLC enumeration of configurations + trace validation of real executions"),
}

def main():
    hooks_commit = os.popen("git -C /repo log --format=%h --grep='^verif:' ").read().split()
    checks = []
    for pid in ALL:
        if pid not in CHECKS:
            continue
        c = CHECKS[pid]
        checks.append({
          "property_id": pid,
          "quick_cmd": "./check %s --tier quick" % pid,
          "thorough_cmd": "./check %s --tier thorough" % pid,
          "evidence_file": "evidence/%s.json" % pid,
          "replay_cmd_template": "./check %s --replay {path}" % pid,
          "engine": "tlc",
          "level_claimed": {"category": c.get("category", "model_checking"), "text": c["text"], "design_ref": "DESIGN.md section " + c["design"]},
          "level_note": c.get("note", MC_NOTE),
          "technique": c["technique"],
        })
    na = [{"property_id": p, "reason": NA.get(p, "check under construction (DESIGN.md section 9); not yet claimed")} for p in ALL if p not in CHECKS]
    m = {"version": 1,
         "setup_cmd": "./check --setup",
         "hooks": {"guard": "cargo feature verif_hooks (cteepbd/Cargo.toml [features]); all hook code is #[cfg(feature = \"verif_hooks\")]",
                   "enable": "the harness depends on cteepbd by path (/repo) with features = [\"verif_hooks\"]; cd /verif/harness && cargo build --offline",
                   "baseline_off_cmd": "cd /repo && cargo test --workspace --no-fail-fast --offline",
                   "source_commits": hooks_commit, "add_only": True},
         "engines": [{"name": "tlc", "path": "/verif/check", "serves_properties": [c["property_id"] for c in checks],
                      "kind_free_text": "explicit TLA+ specification (/verif/spec) checked by TLC; conformance harness (/verif/harness) replays TLC-generated cases on the real code and TLC validates the recorded traces (/verif/trace)"}],
         "checks": checks,
         "not_applicable": na,
         "notes": "Model-based verification with an explicit TLA+ specification; see DESIGN.md (section 0 = as built). Known findings: known_findings.json (one open, F1 for C14; the fixed list names the 18 defects of the tree repaired by fix: commits). Beyond the 19 properties the specification covers the command line program as a state machine (spec/Program.tla, bound by Trace_Prog16/17/19), the metadata store (spec/MetaStore.tla, Trace_Meta), the spellings of factor triples (spec/Triple.tla, Trace_Triple), the grammars of both input files (spec/Grammar.tla, conformance reported as drift) and the demand lines (spec/Components.tla). ./check --selftest demonstrates the binding (16 corruptions of recorded traces, all noticed). seeded/ holds 175 changes written by independent sub-agents with the checks that catch each."}
    json.dump(m, open(os.path.join(ROOT, "MANIFEST.json"), "w"), indent=1)
    print("MANIFEST.json:", len(checks), "checks,", len(na), "not claimed")

NA = {}
if __name__ == "__main__":
    main()
