"""Per-property orchestration.  Each property function says which model configuration TLC
explores, which cases are replayed on the real code, which trace specification judges the
recorded trace, and how evidence is summarised."""
import glob
import json
import os
import time

import vlib
from vlib import ROOT, WORK, REPO, log, ToolError
import signatures


class Ctx:
    def __init__(self, pid, tier, seed):
        self.pid, self.tier, self.seed = pid, tier, seed
        self.t0 = time.time()
        self.states = 0
        self.transitions = 0
        self.mc_runs = []
        self.events = 0
        self.cases = {}          # case id -> case json (for replay files)
        self.ncases = 0
        self.verdicts = []
        self.drifts = []
        self.unjudged = []
        self.notes = []
        self.nontrivial = set()
        self.samples = []
        self.extra = {}
        self.assumptions = []
        self.level = "model_checking"
        self.rejected = False
        self.vevents = {}
        self.last_trace = None

    @property
    def quick(self):
        return self.tier != "thorough"

    def mc(self, module, cfg, **kw):
        st = vlib.run_mc(module, cfg, **kw)
        if not st["ok"]:
            raise ToolError("model checking of %s/%s failed: %s" % (module, cfg, st["errors"]))
        self.states += st["states"]
        self.transitions += st["transitions"]
        self.mc_runs.append({k: st[k] for k in ("module", "cfg", "states", "transitions", "wall", "cached")})
        return st

    def replay(self, cases, name, trace_module, mode="cases", shards=None, keep=None, args=None, batch=40000):
        """cases: iterable of case dicts (ids are assigned here); returns the validation result of the last batch.
        The cases are handled in batches (harness run, trace validation) so that neither the files nor the memory
        grow with the size of the family; in the thorough tier each batch's files are removed once validated."""
        d = os.path.join(WORK, "run", self.pid)
        os.makedirs(d, exist_ok=True)
        cpath = os.path.join(d, name + ".cases")
        tpath = os.path.join(d, name + ".ndjson")
        res = None
        it = iter(cases)
        done = False
        first = True
        while not done:
            n0 = self.ncases
            with open(cpath, "w") as f:
                for c in it:
                    self.ncases += 1
                    c["case"] = self.ncases
                    # the thorough tier keeps no copy of the (very many) cases: a violating case is read back from the batch
                    if self.quick or self.ncases <= 10:
                        self.cases[self.ncases] = c if keep is None else keep(c)
                    f.write(json.dumps(c) + "\n")
                    if self.ncases - n0 >= batch:
                        break
                else:
                    done = True
            if self.ncases == n0:
                break
            if not first and os.path.exists(tpath):
                os.remove(tpath)
            first = False
            vlib.run_harness(mode, cpath, tpath, args=args)
            res = vlib.validate(trace_module, tpath, shards=shards)
            self.events += res["events"]
            self.verdicts += res["verdicts"]
            self.drifts += res["drifts"]
            self.unjudged += res["unjudged"]
            self.notes += res["notes"]
            if not res["accepted"]:
                self.rejected = True
            self.last_trace = tpath
            for rec in res["notes"]:
                if "nontrivial" in rec:
                    self.nontrivial.add(rec["nontrivial"])
            if res["verdicts"] or res["unjudged"]:
                want = {(v.get("case"), v.get("tag")) for v in res["verdicts"]}
                for line in open(tpath):
                    e = json.loads(line)
                    k = (e.get("case"), e.get("tag"))
                    if k in want:
                        self.vevents[k] = {x: e.get(x) for x in ("comps", "fac", "kexp", "area", "lm", "N", "run", "q")}
                if not self.quick:
                    wantc = {v.get("case") for v in res["verdicts"]} | {u.get("case") for u in res["unjudged"]}
                    for line in open(cpath):
                        c = json.loads(line)
                        if c.get("case") in wantc:
                            self.cases[c["case"]] = c if keep is None else keep(c)
        return res

    def sample_from_trace(self, tpath, n=3, fields=("case", "tag", "kexp", "area", "lm", "comps", "N")):
        out = []
        try:
            lines = open(tpath).readlines()
            step = max(1, len(lines) // n)
            for i in range(0, len(lines), step):
                e = json.loads(lines[i])
                s = {k: e[k] for k in fields if k in e}
                o = e.get("out", {})
                if o.get("ok"):
                    fl = o.get("flat", {})
                    s["observed"] = {k: fl[k] for k in list(fl)[:0]}
                    for k in ("bal.we.a.nren", "bal.we.b.nren", "bal.we.b.ren", "rer", "bal.del.grid", "bal.exp.an"):
                        if k in fl:
                            s["observed"][k] = fl[k]
                    s["p"] = e.get("p")
                else:
                    s["observed"] = o
                out.append(s)
                if len(out) >= n:
                    break
        except Exception as ex:  # samples are informative only
            out.append({"error": str(ex)})
        return out

    def finish(self, rule, explanation=None):
        pid = self.pid
        # cases on which the library took the whole harness process down: no property holds on such an input
        # (the terminal states of the specification are a result or a typed error)
        for dd in vlib.DIED:
            self.verdicts.append({"prop": pid, "case": dd["case"], "tag": "died", "clauses": ["library_takes_the_process_down:" + dd["how"]]})
        if vlib.DIED:
            self.extra["harness_process_deaths"] = len(vlib.DIED)
            del vlib.DIED[:]
        findings = [f for f in vlib.load_findings() if f.get("property") == pid]
        known_hit = {}
        violations = []
        for v in self.verdicts:
            case = self.cases.get(v.get("case"))
            classes = sorted({str(c).split(":")[0] for c in v.get("clauses", [])}) or ["unspecified"]
            uncovered = []
            for cl in classes:
                hit = None
                for f in findings:
                    if f.get("status") != "known" or f.get("class") != cl:
                        continue
                    sig = getattr(signatures, f.get("signature", ""), None)
                    ev = self.vevents.get((v.get("case"), v.get("tag")))
                    if sig is not None and sig(case, v, ev):
                        hit = f
                        break
                if hit is None:
                    uncovered.append(cl)
                else:
                    known_hit.setdefault(hit["id"], [hit, 0])[1] += 1
            if uncovered:
                violations.append((v, uncovered))
        if self.rejected:
            violations.append(({"case": None, "clauses": ["trace-rejected"]}, ["trace-rejected"]))
        for fid, (f, n) in sorted(known_hit.items()):
            log("KNOWN-FINDING: property=%s %s (%s; %d case(s) this run)" % (pid, f["what"], fid, n))
        for d in self.drifts[:10]:
            log("DRIFT: property=%s case=%s clauses=%s" % (pid, d.get("case"), d.get("clauses")))
        if self.unjudged:
            log("NOTE: %d event(s) could not be judged by TLC (arithmetic outside 32 bits): %s"
                % (len(self.unjudged), self.unjudged[:3]))
        wall = time.time() - self.t0
        cov = dict(states=self.states, transitions=self.transitions,
                   traces_validated_against_impl=self.events,
                   evaluations=self.events, distinct_nontrivial=len(self.nontrivial),
                   rule=rule, samples=self.samples or [{"note": "no sample recorded"}],
                   model_runs=self.mc_runs, verdicts=len(self.verdicts), drift=len(self.drifts),
                   unjudged=len(self.unjudged), known_findings_hit={k: v[1] for k, v in known_hit.items()})
        if explanation:
            cov["explanation"] = explanation
        cov.update(self.extra)
        vlib.write_evidence(pid, self.tier, self.seed, self.level, cov, wall, len(violations), self.assumptions)
        if violations:
            seen = set()
            n = 0
            for v, cls in violations:
                key = tuple(cls)
                if key in seen and n >= 3:
                    continue
                seen.add(key)
                n += 1
                if n > 20:
                    break
                path = vlib.write_replay(pid, n, dict(property=pid, verdict=v, classes=cls,
                                                      case=self.cases.get(v.get("case"))))
                log("VIOLATION property=%s replay=%s classes=%s case=%s" % (pid, path, ",".join(cls), v.get("case")))
            log("property %s: %d violating event(s) in %d validated (%.0fs)" % (pid, len(violations), self.events, wall))
            return 1
        log("property %s held: %d model states, %d events validated against the implementation, "
            "%d known-finding hit(s), %.0fs" % (pid, self.states, self.events, sum(v[1] for v in known_hit.values()), wall))
        return 0


# ----------------------------------------------------------------------------- inputs
def shipped_files():
    fs = sorted(glob.glob(os.path.join(REPO, "test_data", "*.csv")) +
                glob.glob(os.path.join(REPO, "test_data", "extra", "*.csv")))
    return [f for f in fs if "factores" not in os.path.basename(f)]


def file_cases(runs, locs=("PENINSULA",), kexp=(0, 1), area=(1, 1)):
    for p in shipped_files():
        for loc in locs:
            yield {"name": os.path.relpath(p, REPO), "src": {"file": p}, "fac": {"mode": "loc", "loc": loc},
                   "kexp": list(kexp), "area": list(area), "lm": False, "runs": runs}


def file_steps(path):
    """number of time steps of a components file (count of trailing numeric fields of the first data line)"""
    for line in open(path, encoding="utf-8", errors="replace"):
        line = line.split("#")[0].strip()
        if not line or line.startswith("vector"):
            continue
        n = 0
        for tok in reversed([t.strip() for t in line.split(",")]):
            try:
                float(tok)
                n += 1
            except ValueError:
                break
        # the leading system id is numeric too, but it is never trailing
        if n:
            return n
    return 0


def with_runs(cases, runs):
    for c in cases:
        c = dict(c)
        c["runs"] = runs
        yield c


# ----------------------------------------------------------------------------- properties
def lattice(ctx):
    cfg = "MC_C02_quick.cfg" if ctx.quick else "MC_C02_thorough.cfg"
    return ctx.mc("MC_C02", cfg)


def p_C02(ctx):
    st = lattice(ctx)
    def also_reversed(cs):
        for i, c in enumerate(cs):
            if i % 4 == ctx.seed % 4:
                c = dict(c)
                c["runs"] = list(c["runs"]) + [{"tag": "rev", "rev": True}]    # same building, list of components reversed
            yield c
    r = ctx.replay(also_reversed(vlib.mc_cases(st)), "lattice", "Trace_C02")
    ctx.samples += ctx.sample_from_trace(ctx.last_trace, 2)
    nl = ctx.events
    runs = [{"tag": "base"}, {"tag": "k1", "kexp": [1, 1]}, {"tag": "k3", "kexp": [3, 10], "area": [5, 2]}]
    ctx.replay(file_cases(runs), "files", "Trace_C02")
    ctx.samples += ctx.sample_from_trace(ctx.last_trace, 1)
    # buildings outside the lattice's skeleton: the hand-written shapes of C08 (auxiliaries as the only electricity,
    # output lines first, exported heat ...) and the MC_Comp family of systems with auxiliaries
    shapes = [{"src": {"text": t}, "fac": {"mode": "loc", "loc": loc}, "kexp": [1, 2], "area": [5, 2], "lm": False, "runs": [{"tag": "base"}]}
              for t in C08_SHAPES for loc in ("PENINSULA", "CANARIAS")]
    ctx.replay(shapes, "shapes", "Trace_C02")
    c06 = ctx.mc("MC_Comp", "MC_Comp_C06_thorough.cfg")
    def evalable(cs):
        for c in cs:
            c.update({"fac": {"mode": "loc", "loc": "PENINSULA"}, "kexp": [1, 2], "area": [1, 1], "lm": False, "runs": [{"tag": "base"}]})
            yield c
    ctx.replay(evalable(stride(vlib.mc_cases(c06), 12 if ctx.quick else 2, ctx.seed % 12 if ctx.quick else 0)), "aux-family", "Trace_C02")
    ctx.nontrivial = set(range(nl))
    ctx.extra["exhaustive"] = True
    ctx.extra["lattice_cases"] = nl
    ctx.assumptions = ["f32 results are compared with the exact rational result within 5e-5 of the case magnitude + 2 units (DESIGN.md 3)",
                       "harness writer / flattener (harness/src/abs.rs, flat.rs) trusted",
                       "shipped files with non-integer values or 12-step load matching are outside the 32-bit exact arithmetic and are not recomputed (counted as skipped by the trace specification)"]
    return ctx.finish("every building of the MC_C02 lattice (TLC-enumerated, exhaustive for the configured value sets) is replayed on the real library; every numeric field of EnergyPerformance is compared with Balance!Evaluate; non-trivial = lattice cases (all have at least two carriers)")


def unbounded(ctx, inv, module="Step"):
    """thorough tier: the per-step, division-free part is discharged by Apalache for all naturals (Step), the promise of
    set_meta for all strings (MetaApa)"""
    if ctx.quick:
        return
    r = vlib.run_apalache(module, inv)
    if not r["ok"]:
        raise ToolError("Apalache did not confirm %s" % inv)
    ctx.extra.setdefault("unbounded_obligations", []).append(r)


def stride(it, k, off=0):
    for i, x in enumerate(it):
        if i % k == off:
            yield x


def rnd(ctx, n_quick, n_thorough, runs, **kw):
    import gen
    return gen.cases(ctx.seed, n_quick if ctx.quick else n_thorough, runs, **kw)


TOL_NOTE = "f32 results are compared within 5e-5 of the case magnitude + 2 logging units (DESIGN.md 3); ratios with the ratio tolerance of TraceKit"
TRUST = "harness writer / flattener (harness/src) and python driver trusted; they contain no comparison"


def p_C01(ctx):
    unbounded(ctx, "Conservation")
    st = lattice(ctx)
    runs = [{"tag": "base"}]
    ctx.replay(with_runs(vlib.mc_cases(st), runs), "lattice", "Trace_C01")
    ctx.samples += ctx.sample_from_trace(ctx.last_trace, 2)
    ctx.extra["lattice_cases"] = ctx.events
    runs2 = [{"tag": "lm0", "lm": False}, {"tag": "lm1", "lm": True}]
    ctx.replay(file_cases(runs2), "files", "Trace_C01")
    ctx.replay(rnd(ctx, 400, 20000, runs2, aux=False), "random", "Trace_C01")
    ctx.samples += ctx.sample_from_trace(ctx.last_trace, 1)
    ctx.nontrivial = set(range(ctx.events))
    ctx.assumptions = [TOL_NOTE, TRUST, "model level: MC_C02!Conservation (Balance.tla refines P_C01) on the lattice; the Apalache supplement of DESIGN.md is not part of this check"]
    return ctx.finish("P_C01 (conservation per carrier, step and source; link to the component list) evaluated by TLC on every Eval event: all lattice buildings, shipped files and seeded random buildings, both load-matching modes; non-trivial = events (each has >= 1 carrier x step point)")


def cli_histories(ctx, name, trace_module, runs, meta="", count=None, locs=("PENINSULA",)):
    """Histories made with the REAL PROGRAM: every text (shipped files, hand-written shapes, seeded random buildings)
    is written, optionally behind metadata lines, and evaluated once per run of `runs` - dicts with a tag, the extra
    command line arguments and the parameters (kexp, area, lm) the run states; the --json results are flattened by
    the harness (mode flatjson) into the same Eval events as the library's, and judged by the same trace module."""
    import cli, shutil, gen
    vlib.build(cli=True)
    d = os.path.join(WORK, "run", ctx.pid)
    tmp = os.path.join(d, "cli-" + name)
    shutil.rmtree(tmp, ignore_errors=True)
    os.makedirs(tmp, exist_ok=True)
    texts = [(os.path.relpath(p, REPO), open(p, encoding="utf-8", errors="replace").read()) for p in shipped_files()]
    texts += [("shape%d" % i, t) for i, t in enumerate(C08_SHAPES)]
    texts += [("random%d" % i, render_abs(c["src"]["comps"])) for i, c in enumerate(gen.cases(ctx.seed, count or (25 if ctx.quick else 400), None, aux=True))]
    jobs = []
    for name_, text in texts:
        ctx.ncases += 1
        n = ctx.ncases
        ctx.cases[n] = {"name": name_, "text": meta + text, "runs": runs}
        base = os.path.join(tmp, str(n))
        open(base + ".csv", "w").write(meta + text)
        for r in runs:
            jobs.append((n, r, base))
    def one(job):
        n, r, base = job
        jp = "%s.%s.json" % (base, r["tag"])
        res = cli.run_proc(["-c", base + ".csv", "-l", locs[n % len(locs)], "--json", jp] + r.get("argv", []), tmp)
        rec = {"case": n, "tag": r["tag"], "json": jp, "exit": res["exit"] if isinstance(res["exit"], int) else -1}
        for k in ("kexp", "area", "lm", "run"):
            if k in r:
                rec[k] = r[k]
        return rec
    import concurrent.futures as cf
    with cf.ThreadPoolExecutor(max_workers=vlib.NCPU) as ex:
        recs = list(ex.map(one, jobs))
    ipath, tpath = os.path.join(d, "cli-%s.in" % name), os.path.join(d, "cli-%s.ndjson" % name)
    with open(ipath, "w") as f:
        for x in recs:
            f.write(json.dumps(x) + "\n")
    vlib.run_harness("flatjson", ipath, tpath)
    res = vlib.validate(trace_module, tpath)
    ctx.events += res["events"]
    ctx.verdicts += res["verdicts"]
    ctx.drifts += res["drifts"]
    ctx.unjudged += res["unjudged"]
    if not res["accepted"]:
        ctx.rejected = True
    if res["verdicts"]:
        for line in open(tpath):
            e = json.loads(line)
            ctx.vevents[(e.get("case"), e.get("tag"))] = {"comps": e.get("comps"), "kexp": e.get("kexp"), "area": e.get("area"), "lm": e.get("lm")}
    shutil.rmtree(tmp, ignore_errors=True)
    ctx.extra["program_histories_" + name] = len(texts)
    return res


def p_C03(ctx):
    st = lattice(ctx)
    K = [("k0", [0, 1]), ("k100", [1, 1]), ("k25", [1, 4]), ("k50", [1, 2]), ("k30", [3, 10])]
    runs = [{"tag": t, "kexp": k} for t, k in K]
    ctx.replay(with_runs(stride(vlib.mc_cases(st), 3 if ctx.quick else 1, ctx.seed % 3 if ctx.quick else 0), runs), "lattice", "Trace_C03")
    ctx.samples += ctx.sample_from_trace(ctx.last_trace, 2)
    ctx.replay(file_cases(runs), "files", "Trace_C03")
    ctx.replay(file_cases([dict(r, lm=True) for r in runs]), "files-lm", "Trace_C03")
    ctx.replay(rnd(ctx, 150, 5000, runs), "random", "Trace_C03")
    # very small buildings and very small exports (hundredths of a kWh per step): the identity is one of exact arithmetic, no
    # amount of exported energy is too small to be credited in proportion to k_exp
    def tiny_exports():
        for i, (use, pv) in enumerate((([0.05, 0.06], [0.08, 0.02]), ([0.30, 0.20], [0.33, 0.10]), ([0.02, 0.02], [0.05, 0.05]),
                                       ([1.00, 0.50], [1.04, 0.10]), ([0.10, 0.10, 0.10], [0.12, 0.01, 0.14]))):
            comps = [{"kind": "USED", "id": 0, "cr": "ELECTRICIDAD", "srv": "ILU", "src": "-", "v": use, "cm": ""},
                     {"kind": "USED", "id": 0, "cr": "ELECTRICIDAD", "srv": "VEN", "src": "-", "v": [x / 2 for x in use], "cm": ""},
                     {"kind": "PROD", "id": 0, "cr": "-", "srv": "-", "src": "EL_INSITU", "v": [round(a + b / 2, 3) for a, b in zip(pv, use)], "cm": ""}]
            for loc in ("PENINSULA", "CANARIAS"):
                yield {"name": "tiny-export", "src": {"comps": comps}, "fac": {"mode": "loc", "loc": loc}, "kexp": [0, 1], "area": [1, 1], "lm": False, "runs": runs}
    ctx.replay(tiny_exports(), "tiny-exports", "Trace_C03")
    ctx.samples += ctx.sample_from_trace(ctx.last_trace, 1)
    # the same histories made with the real program: files that carry another k_exp (and an area) as metadata, the option
    # given as 0, 1 and interior values, and once not given at all (the metadata value 0.7 is then the one used)
    cli_histories(ctx, "kexp", "Trace_C03",
                  [{"tag": "k0", "argv": ["--kexp=0"], "kexp": [0, 1], "lm": False}, {"tag": "k100", "argv": ["--kexp=1"], "kexp": [1, 1], "lm": False},
                   {"tag": "k25", "argv": ["--kexp=0.25"], "kexp": [1, 4], "lm": False}, {"tag": "k50", "argv": ["--kexp", "0.5"], "kexp": [1, 2], "lm": False},
                   {"tag": "k70", "argv": [], "kexp": [7, 10], "lm": False}],
                  meta="#META CTE_KEXP: 0.7\n#META CTE_AREAREF: 3.5\n", locs=("PENINSULA", "CANARIAS"))
    ctx.nontrivial = set(range(ctx.ncases))
    ctx.assumptions = [TOL_NOTE, TRUST, "model level: MC_C02!CheckK (exact affine identity on the whole lattice)"]
    return ctx.finish("histories of five evaluations (k_exp = 0, 1, 1/4, 1/2, 3/10) per building; TLC checks the affine identity on every step-B path (per carrier, per service, total, per m2), k-independence of every other field, B(0) = A and no-export => constant; quick tier replays one third of the lattice (phase chosen by the seed)")


def p_C04(ctx):
    st = lattice(ctx)
    runs = [{"tag": "base"}, {"tag": "a2", "area": [5, 2]}, {"tag": "a3", "area": [200, 1]}, {"tag": "a4", "area": [1, 2]},
            # a second history with load matching (the breakdowns by source and by service are then shares of a reduced total)
            {"tag": "base-lm", "lm": True}, {"tag": "a2-lm", "area": [5, 2], "lm": True}]
    def base_area(cs):
        for c in cs:
            c = dict(c)
            c["area"] = [1, 1]
            yield c
    ctx.replay(base_area(with_runs(stride(vlib.mc_cases(st), 4 if ctx.quick else 1, ctx.seed % 4 if ctx.quick else 0), runs)), "lattice", "Trace_C04")
    ctx.samples += ctx.sample_from_trace(ctx.last_trace, 2)
    ctx.replay(base_area(file_cases(runs)), "files", "Trace_C04")
    ctx.replay(base_area(rnd(ctx, 150, 5000, runs)), "random", "Trace_C04")
    ctx.samples += ctx.sample_from_trace(ctx.last_trace, 1)
    # the same histories made with the real program (the area of the base run comes from the file's metadata)
    cli_histories(ctx, "area", "Trace_C04",
                  [{"tag": "base", "argv": [], "area": [7, 2], "kexp": [7, 10], "lm": False}, {"tag": "a2", "argv": ["--arearef=2.5"], "area": [5, 2], "kexp": [7, 10], "lm": False},
                   {"tag": "a3", "argv": ["-a", "200"], "area": [200, 1], "kexp": [7, 10], "lm": False}, {"tag": "a4", "argv": ["--arearef", "0.5"], "area": [1, 2], "kexp": [7, 10], "lm": False}],
                  meta="#META CTE_KEXP: 0.7\n#META CTE_AREAREF: 3.5\n")
    ctx.nontrivial = set(range(ctx.ncases))
    ctx.assumptions = [TOL_NOTE, TRUST, "the aggregation schema is data of Trace_C04.tla; a path of Balance outside the schema is reported as DRIFT"]
    return ctx.finish("aggregation schema (every path of Balance = sum of per-carrier paths), breakdown identities, balance_m2 * area = balance on every path, and histories over four areas; checked by TLC on every event")


def p_C12(ctx):
    unbounded(ctx, "Priority")
    st = lattice(ctx)
    runs = [{"tag": "lm0", "lm": False}, {"tag": "lm1", "lm": True}]
    # third evaluation: the same list of components in the opposite order (the cogenerator then comes before the
    # photovoltaic system): the priority is a matter of the sources, not of the order of the list
    ctx.replay(with_runs(vlib.mc_cases(st), runs + [{"tag": "rev0", "lm": False, "rev": True}]), "lattice", "Trace_C12")
    ctx.samples += ctx.sample_from_trace(ctx.last_trace, 2)
    ctx.replay(file_cases(runs), "files", "Trace_C12")
    ctx.replay(rnd(ctx, 400, 20000, runs), "random", "Trace_C12")
    ctx.samples += ctx.sample_from_trace(ctx.last_trace, 1)
    # the same pairs made with the real program (flag --load_matching)
    cli_histories(ctx, "lm", "Trace_C12",
                  [{"tag": "lm0", "argv": [], "lm": False, "kexp": [0, 1], "area": [1, 1]}, {"tag": "lm1", "argv": ["--load_matching"], "lm": True, "kexp": [0, 1], "area": [1, 1]}])
    ctx.assumptions = [TOL_NOTE, TRUST, "model level: MC_C02!CheckPrio; formula (32) is checked on traces for any ratio with a tolerance that accounts for the rounding of the logged operands"]
    return ctx.finish("P_C12 on the ELECTRICIDAD balance of two-evaluation histories (load matching off, on): priority, bounds, f = 1 without load matching, formula (32), monotone effect; non-trivial = cases with both sources producing and 0 < PV < use at some step (counted by the trace specification)")


def p_C13(ctx):
    st = lattice(ctx)
    runs = [{"tag": "lm0", "lm": False, "kexp": [0, 1]}, {"tag": "lm1", "lm": True, "kexp": [0, 1]}]
    reg = (c for c in vlib.mc_cases(st) if c["fac"]["mode"] == "loc")
    ctx.replay(with_runs(reg, runs), "lattice", "Trace_C13")
    ctx.samples += ctx.sample_from_trace(ctx.last_trace, 2)
    ctx.replay(file_cases(runs, locs=("PENINSULA", "CANARIAS")), "files", "Trace_C13")
    ctx.replay(rnd(ctx, 400, 20000, runs), "random", "Trace_C13")
    ctx.samples += ctx.sample_from_trace(ctx.last_trace, 1)
    ctx.nontrivial = set(range(ctx.ncases))
    ctx.assumptions = [TOL_NOTE, TRUST, "model level: MC_C02!CheckRer with the two named weakenings KF_C13_PvExport / KF_C13_CgnExport"]
    return ctx.finish("rer = ren/(ren+nren), 0 <= rer <= 1, 0 <= rer_onst <= rer_nrb <= rer on every evaluation with a regulatory factor set at k_exp = 0, both load-matching modes (lattice, files, random)")


def p_C14(ctx):
    unbounded(ctx, "Monotone")
    st = ctx.mc("MC_C14", "MC_C14_quick.cfg" if ctx.quick else "MC_C14_thorough.cfg")
    def pairs(cs):
        for i, c in enumerate(cs):
            d = c.pop("delta")
            rs = []
            for k in ([0, 1], [1, 2], [1, 1]):
                t = "k%d%d" % (k[0], k[1])
                rs.append({"tag": "b." + t, "role": "b", "kexp": k})
                rs.append({"tag": "p." + t, "role": "p", "kexp": k, "addpv": d})
                if i % 2 == 0:
                    # AddPv as a user makes it: one more PRODUCCION line with the id of the existing photovoltaic
                    # system, and the file read again (the harness writes and parses the text)
                    rs[-1]["via"] = "text"
            c["runs"] = rs
            yield c
    ctx.replay(pairs(vlib.mc_cases(st)), "lattice", "Trace_C14")
    ctx.samples += ctx.sample_from_trace(ctx.last_trace, 2, fields=("case", "tag", "kexp", "lm", "comps", "run"))
    def rruns(r):
        rs = []
        for k in ([0, 1], [1, 2], [1, 1]):
            for lm in (False, True):
                t = "k%d%d.lm%d" % (k[0], k[1], int(lm))
                rs.append({"tag": "b." + t, "role": "b", "kexp": k, "lm": lm})
                rs.append({"tag": "p." + t, "role": "p", "kexp": k, "lm": lm, "addpv": "RANDOM"})
        # a FINE increment (a quarter of a percent of the on-site production of ONE step) under load matching: the
        # matching factor is a smooth function of production / use - a little more production never lowers what is used
        for j in (0, 1, 2):
            rs.append({"tag": "b.fine%d" % j, "role": "b", "kexp": [0, 1], "lm": True})
            rs.append({"tag": "p.fine%d" % j, "role": "p", "kexp": [0, 1], "lm": True, "addpv": "FINE%d" % j})
        return rs
    def fill(cs):
        import random, copy
        r = random.Random(ctx.seed + 7)
        for c in cs:
            c = copy.deepcopy(c)
            n = len(c["src"]["comps"][0]["v"]) if "comps" in c["src"] else file_steps(c["src"]["file"])
            d = [r.choice([0.0, 0.0, 1.0, 50.0, 700.0, 5000.0]) for _ in range(n)]
            pv = [0.0] * n
            for k_ in (c["src"].get("comps") or []):
                if k_["kind"] == "PROD" and k_["src"] == "EL_INSITU":
                    pv = [a + b for a, b in zip(pv, k_["v"])]
            steps = [t for t in range(n) if pv[t] > 4] or [0]
            keep = []
            for x in c["runs"]:
                if x.get("addpv") == "RANDOM":
                    x["addpv"] = d
                elif str(x.get("addpv", "")).startswith("FINE"):
                    t = steps[(r.randrange(1 << 16) + int(x["addpv"][4:]) * 7) % len(steps)]
                    x["addpv"] = [round(max(0.01, 0.0025 * pv[t]), 2) if i == t else 0.0 for i in range(n)]
                if "fine" in x["tag"] and not any(pv):
                    continue            # nothing to refine: the building has no on-site electricity
                keep.append(x)
            c["runs"] = keep
            yield c
    ctx.replay(fill(rnd(ctx, 150, 5000, rruns)), "random", "Trace_C14")
    # a sweep of fine increments under load matching: one-step buildings whose on-site production grows by a quarter of a
    # percent from case to case, each evaluated before and after the next increment - the matching factor is a smooth
    # function of production / use, so no increment, however small, lowers what is used on site
    def sweep():
        for use, pv0, dl in ((400.5, 100.13, 0.25), (90.5, 60.07, 0.15), (1000.5, 37.03, 0.09), (55.5, 48.01, 0.12)):    # (never whole numbers: both events of a pair are then logged with the same number of decimals)
            for j in range(64):
                comps = [{"kind": "USED", "id": 0, "cr": "ELECTRICIDAD", "srv": "ILU", "src": "-", "v": [use], "cm": ""},
                         {"kind": "PROD", "id": 0, "cr": "-", "srv": "-", "src": "EL_INSITU", "v": [round(pv0 + j * dl, 2)], "cm": ""}]
                yield {"name": "fine-sweep", "src": {"comps": comps}, "fac": {"mode": "loc", "loc": ("PENINSULA", "CANARIAS")[j % 2]}, "kexp": [0, 1], "area": [1, 1], "lm": True,
                       "runs": [{"tag": "b.sweep", "role": "b", "kexp": [0, 1], "lm": True}, {"tag": "p.sweep", "role": "p", "kexp": [0, 1], "lm": True, "addpv": [dl]}]}
    ctx.replay(sweep(), "fine-sweep", "Trace_C14")
    f12 = [dict(c) for c in file_cases(rruns(None))]
    ctx.replay(fill(f12), "files", "Trace_C14")   # files with 12 steps get a 12-step increment, the others are skipped by the harness
    ctx.samples += ctx.sample_from_trace(ctx.last_trace, 1, fields=("case", "tag", "kexp", "lm", "run"))
    ctx.nontrivial = set(range(ctx.ncases))
    ctx.assumptions = [TOL_NOTE, TRUST, "model level: MC_C14!CheckMono (exact, regulatory sets, k in {0,1/2,1}) with the named weakening KF_C14_RenewableCgn"]
    return ctx.finish("histories Evaluate ; AddPv(delta) ; Evaluate: TLC enumerates buildings x increments on the lattice (regulatory sets) and the pairs are replayed; random buildings and shipped files with random increments, k in {0,1/2,1}, both load-matching modes")


C08_SHAPES = [
    # output-energy line first, no on-site electricity
    "2, SALIDA, CAL, 3.0\n2, CONSUMO, CAL, ELECTRICIDAD, 1.0\n2, CONSUMO, CAL, EAMBIENTE, 2.0",
    # output-energy lines and PV declared after them
    "1, SALIDA, ACS, 5.0\n1, CONSUMO, ACS, GASNATURAL, 6.0\n0, PRODUCCION, EL_INSITU, 4.0\n0, CONSUMO, ILU, ELECTRICIDAD, 2.0",
    # auxiliaries as the only electricity of the building
    "1, CONSUMO, ACS, GASNATURAL, 10.0\n1, AUX, 2.0",
    # cogeneration exporting to non-EPB uses
    "0, CONSUMO, ILU, ELECTRICIDAD, 1.0\n0, CONSUMO, NEPB, ELECTRICIDAD, 4.0\n3, PRODUCCION, EL_COGEN, 6.0\n3, CONSUMO, COGEN, GASNATURAL, 20.0",
    # exported ambient and solar energy (surplus declared production), non-EPB use of heat
    "1, CONSUMO, ACS, EAMBIENTE, 2.0\n1, PRODUCCION, EAMBIENTE, 5.0\n2, CONSUMO, CAL, TERMOSOLAR, 1.0\n2, PRODUCCION, TERMOSOLAR, 4.0\n0, CONSUMO, NEPB, EAMBIENTE, 1.0",
    # PV + cogeneration + non-EPB use + district heating, several steps
    "0, CONSUMO, ILU, ELECTRICIDAD, 1.0, 5.0\n0, CONSUMO, NEPB, ELECTRICIDAD, 1.0, 0.0\n0, PRODUCCION, EL_INSITU, 3.0, 1.0\n3, PRODUCCION, EL_COGEN, 2.0, 2.0\n3, CONSUMO, COGEN, BIOMASA, 7.0, 9.0\n4, CONSUMO, CAL, RED1, 3.0, 3.0\n4, CONSUMO, ACS, RED2, 3.0, 3.0",
    # single-service system with auxiliaries and output energy
    "1, CONSUMO, REF, ELECTRICIDAD, 4.0\n1, SALIDA, REF, -12.0\n1, AUX, 1.0",
]


def p_C08(ctx):
    st = lattice(ctx)
    runs = [{"tag": "full"}, {"tag": "strip", "strip": True}]
    ctx.replay(with_runs(stride(vlib.mc_cases(st), 3 if ctx.quick else 1, ctx.seed % 3 if ctx.quick else 0), runs), "lattice", "Trace_C08")
    ctx.samples += ctx.sample_from_trace(ctx.last_trace, 2, fields=("case", "tag", "comps", "fac"))
    shapes = []
    for t in C08_SHAPES:
        for loc in ("PENINSULA", "CANARIAS"):
            for lm in (False, True):
                shapes.append({"name": "shape", "src": {"text": t}, "fac": {"mode": "loc", "loc": loc, "red1": [500, 1000, 200]},
                               "kexp": [1, 2], "area": [1, 1], "lm": lm, "runs": runs})
        shapes.append({"name": "shape-user", "src": {"text": t}, "fac": {"mode": "file", "path": REPO + "/test_data/factores_paso_test.csv"},
                       "kexp": [1, 2], "area": [1, 1], "lm": False, "runs": runs})
    ctx.replay(shapes, "shapes", "Trace_C08")
    ctx.samples += ctx.sample_from_trace(ctx.last_trace, 1, fields=("case", "tag", "comps"))
    ctx.replay(file_cases(runs, locs=("PENINSULA", "BALEARES")), "files", "Trace_C08")
    ctx.replay(rnd(ctx, 300, 10000, runs, aux=True), "random", "Trace_C08")
    ctx.assumptions = [TOL_NOTE, TRUST, "model level: MC_C02!CheckStrip (Strip keeps every key an evaluation looks up) on the lattice", "the CLI default path (strip unless -F) is exercised by the C19/C16 checks"]
    return ctx.finish("histories Evaluate(full) ; Strip ; Evaluate(stripped): lattice (one third in the quick tier), hand-written shapes of the quantifier (output lines first, auxiliaries only, cogeneration to non-EPB uses, exported ambient/solar), shipped files, random buildings with auxiliaries; non-trivial = cases where strip removed at least one factor")


def layout_runs(n, r):
    rs = [{"tag": "base"}]
    for i in range(2):
        p = list(range(1, n + 1))
        r.shuffle(p)
        rs.append({"tag": "perm%d" % i, "perm": p})
    # (5 and 7 give layouts with an odd number of steps: nothing in the code may depend on the parity or size of n)
    for m in (2, 3, 4, 5, 7):
        if n * m <= 60:
            rs.append({"tag": "sub%d" % m, "sub": m})
    return rs


def steps_of(c):
    return len(c["src"]["comps"][0]["v"]) if "comps" in c["src"] else file_steps(c["src"]["file"])


def p_C09(ctx):
    import random
    r = random.Random(ctx.seed)
    ctx.mc("MC_C09", "MC_C09_quick.cfg" if ctx.quick else "MC_C09_thorough.cfg")
    st = lattice(ctx)
    def add(cs):
        for c in cs:
            c = dict(c)
            c["runs"] = layout_runs(steps_of(c), r)
            yield c
    ctx.replay(add(stride(vlib.mc_cases(st), 6 if ctx.quick else 1, ctx.seed % 6 if ctx.quick else 0)), "lattice", "Trace_C09")
    ctx.samples += ctx.sample_from_trace(ctx.last_trace, 2, fields=("case", "tag", "run", "comps"))
    ctx.replay(add(file_cases(None)), "files", "Trace_C09")
    ctx.replay(add(file_cases(None, kexp=(0, 1))), "files-k0", "Trace_C09")
    def lmon(cs):
        for c in cs:
            c["lm"] = True
            yield c
    ctx.replay(lmon(add(file_cases(None))), "files-lm", "Trace_C09")
    ctx.replay(add(rnd(ctx, 120, 5000, None)), "random", "Trace_C09")
    # long series (quick: four days of hours, 96 steps; thorough: an hourly month, 744 steps; sub-hourly when halved): two random buildings permuted and subdivided,
    # one of them with load matching
    def long_runs(cs):
        for i, c in enumerate(cs):
            c = dict(c)
            n = steps_of(c)
            p = list(range(1, n + 1))
            r.shuffle(p)
            c["lm"] = (i % 2 == 0)
            c["runs"] = [{"tag": "base"}, {"tag": "perm0", "perm": p}, {"tag": "perm1", "perm": list(range(n, 0, -1))}, {"tag": "sub2", "sub": 2}]
            yield c
    ctx.replay(long_runs(rnd(ctx, 2, 12, None, aux=True, steps=96 if ctx.quick else 744)), "long", "Trace_C09")
    ctx.nontrivial = set(range(ctx.ncases))
    ctx.assumptions = [TOL_NOTE, TRUST, "model level: MC_C09!CheckLayout (all permutations, subdivision in integral form) exactly on the lattice"]
    return ctx.finish("histories Evaluate ; Permute(pi) / Subdivide(m) ; Evaluate: the logged transformed input is checked against the specification's transform, annual fields must be equal and per-step vectors permuted / subdivided; lattice (one sixth in quick tier), shipped files (k_exp 0 and 1, load matching off and on), random buildings")


def p_C11(ctx):
    ctx.mc("MC_C09", "MC_C09_quick.cfg" if ctx.quick else "MC_C09_thorough.cfg")
    st = lattice(ctx)
    SC = [[1, 64], [1, 8], [1, 2], [2, 1], [16, 1], [1024, 1], [3, 1], [1, 10]]
    def add(cs):
        for c in cs:
            c = dict(c)
            a = c["area"]
            rs = [{"tag": "base"}]
            for n, d in SC:
                rs.append({"tag": "s%d_%d" % (n, d), "scale": [n, d]})
            for n, d in ([2, 1], [1, 4], [10, 1]):
                rs.append({"tag": "a%d_%d" % (n, d), "areamul": [n, d], "area": [a[0] * n, a[1] * d]})
            c["runs"] = rs
            yield c
    ctx.replay(add(stride(vlib.mc_cases(st), 12 if ctx.quick else 1, ctx.seed % 12 if ctx.quick else 0)), "lattice", "Trace_C11")
    ctx.samples += ctx.sample_from_trace(ctx.last_trace, 2, fields=("case", "tag", "run", "comps"))
    ctx.replay(add(file_cases(None)), "files", "Trace_C11")
    ctx.replay(add(rnd(ctx, 100, 5000, None)), "random", "Trace_C11")
    # the MC_Comp family of partly covered ambient / solar uses (shortfalls of 1 - 3 kWh per step) a hundred times smaller
    # and larger: the completion, like everything else, is linear (no absolute threshold anywhere on the way)
    c05 = ctx.mc("MC_Comp", "MC_Comp_C05_quick.cfg" if ctx.quick else "MC_Comp_C05_thorough.cfg")
    def tiny(cs):
        for c in cs:
            c = dict(c)
            c.update({"fac": {"mode": "loc", "loc": "PENINSULA"}, "kexp": [0, 1], "area": [1, 1], "lm": False,
                      "runs": [{"tag": "base"}, {"tag": "s1_100", "scale": [1, 100]}, {"tag": "s100_1", "scale": [100, 1]}]})
            yield c
    ctx.replay(tiny(stride(vlib.mc_cases(c05), 5 if ctx.quick else 1, ctx.seed % 5 if ctx.quick else 0)), "completion-family", "Trace_C11")
    # the MC_Comp family of systems with auxiliaries (several services, steps without any output): the DECLARED input is
    # scaled ("pre"), so that the sharing of the auxiliaries is done on the scaled building - shares are ratios
    c06 = ctx.mc("MC_Comp", "MC_Comp_C06_thorough.cfg")
    def auxfam(cs):
        for c in cs:
            c = dict(c)
            c.update({"fac": {"mode": "loc", "loc": "PENINSULA"}, "kexp": [1, 2], "area": [1, 1], "lm": False,
                      "runs": [{"tag": "base"}, {"tag": "s3_1", "scale": [3, 1], "pre": True}, {"tag": "s1_8", "scale": [1, 8], "pre": True},
                               {"tag": "s64_1", "scale": [64, 1], "pre": True}]})
            yield c
    ctx.replay(auxfam(stride(vlib.mc_cases(c06), 24 if ctx.quick else 4, ctx.seed % 24 if ctx.quick else 0)), "aux-family", "Trace_C11")
    # DHW supply mixes of MC_C15 (biomass, district heat, heat pumps, auxiliaries): the DHW renewable fraction
    # must not move with the scale or the area, also when both change together
    st15 = ctx.mc("MC_C15", "MC_C15_quick.cfg" if ctx.quick else "MC_C15_thorough.cfg", timeout=3000)
    def add15(cs):
        for c in cs:
            c = dict(c)
            c.update({"fac": {"mode": "loc", "loc": "PENINSULA", "red1": [500, 500, 100]}, "kexp": [0, 1], "area": [1, 1], "lm": False})
            c["runs"] = [{"tag": "base"}, {"tag": "s1_64", "scale": [1, 64]}, {"tag": "s16_1", "scale": [16, 1]},
                         {"tag": "a1000_1", "areamul": [1000, 1], "area": [1000, 1]},
                         {"tag": "a2_1", "areamul": [2, 1], "area": [2, 1]}]
            yield c
            c2 = dict(c)
            c2["area"] = [1000, 1]
            c2["runs"] = [{"tag": "base"}, {"tag": "s1_64", "scale": [1, 64]}, {"tag": "s3_1", "scale": [3, 1]}]
            yield c2
    ctx.replay(add15(stride(vlib.mc_cases(st15), 173 if ctx.quick else 8, ctx.seed % 173 if ctx.quick else 0)), "dhw-mixes", "Trace_C11")
    # the area histories made with the real program: areas with three and more decimals (100 m2 times 1/64, 1/1024, 3/7 ...)
    # given with -a; the per-m2 results of the --json document are divided by exactly that factor
    def arun(tag, a_txt, n, d, area):
        return {"tag": tag, "argv": ["-a", a_txt], "area": area, "kexp": [0, 1], "lm": False, "run": {"tag": tag, "areamul": [n, d]}}
    cli_histories(ctx, "areas", "Trace_C11",
                  [{"tag": "base", "argv": ["-a", "100"], "area": [100, 1], "kexp": [0, 1], "lm": False, "run": {"tag": "base"}},
                   arun("a1_64", "1.5625", 1, 64, [25, 16]), arun("a1_1024", "0.09765625", 1, 1024, [25, 256]),
                   arun("a2_1", "200", 2, 1, [200, 1]), arun("a1_8", "12.5", 1, 8, [25, 2]), arun("a3_1000", "0.3", 3, 1000, [3, 10])],
                  count=12 if ctx.quick else 200)
    ctx.nontrivial = set(range(ctx.ncases))
    ctx.assumptions = [TOL_NOTE, TRUST, "bit-exact scaling for powers of two is not claimed (hash-map summation order differs between runs)", "scalings that take a non-zero value below 0.01 kWh are outside the quantifier and are skipped by the harness",
                       "model level: MC_C09!CheckLayout (ScaleInt) exactly on the lattice"]
    return ctx.finish("histories Evaluate ; Scale(c) / SetArea(c*A) ; Evaluate with c in {1/64,1/8,1/2,2,16,1024,3,1/10} and area factors {2,1/4,10}; results of scaled runs are logged in units of c so that homogeneity is equality of the logged integers; RER, f_match and the DHW fraction (value or error class) must not move")


def sched_stats(ctx):
    """orders of the id loops seen per case (NOTE lines of the trace specifications)"""
    import math
    seen = {}
    for n in ctx.notes:
        if "sched" in n:
            seen.setdefault(n["case"], set()).add(json.dumps(n["sched"]))
    possible = 0
    got = 0
    multi = 0
    for c, s in seen.items():
        sched = json.loads(next(iter(s)))
        groups = {}
        for ev, car, _id in sched:
            if ev != "Sort":
                groups[(ev, car)] = groups.get((ev, car), 0) + 1
        p = 1
        for k in groups.values():
            p *= math.factorial(k)
        possible += p
        got += min(len(s), p)
        if p > 1:
            multi += 1
    return {"cases_with_several_orders": multi, "orders_seen": got, "orders_possible": possible}


def comp_cases(st, reps, evaluate):
    for c in vlib.mc_cases(st):
        c["parse_log"] = True
        c["reps"] = reps
        if evaluate:
            c.update({"fac": {"mode": "loc", "loc": "PENINSULA"}, "kexp": [0, 1], "area": [1, 1], "lm": False, "runs": [{"tag": "base"}]})
        else:
            c["parse_only"] = True
        yield c


def p_C05(ctx):
    st = ctx.mc("MC_Comp", "MC_Comp_C05_quick.cfg" if ctx.quick else "MC_Comp_C05_thorough.cfg")
    ctx.replay(comp_cases(st, 6 if ctx.quick else 24, False), "lattice", "Trace_C05")
    ctx.extra["lattice_files"] = ctx.ncases
    # the same family a hundred times smaller (values of 0.01 - 0.05 kWh, the resolution of the text format): the
    # completion is max(0, use - declared) whatever the size of the shortfall
    def small(cs):
        for c in cs:
            c = json.loads(json.dumps(c))
            for x in c["src"]["comps"]:
                x["v"] = [y / 100.0 for y in x["v"]]
            c["parse_q"] = 2
            c["reps"] = 2
            yield c
    ctx.replay(small(stride(comp_cases(st, 2, False), 3 if ctx.quick else 1, ctx.seed % 3 if ctx.quick else 0)), "lattice-small", "Trace_C05")
    def more(cs):
        for c in cs:
            c["parse_log"] = True
            c["parse_only"] = True
            c["reps"] = 4
            c["parse_q"] = 2
            yield c
    # free text: every string TLC enumerates over Output!TextAtoms as the comment of a line of each kind and as a metadata
    # value; the parser must read the text after the first '#' (':') as it is, blanks around it apart
    st17 = ctx.mc("MC_C17", "MC_C17_quick.cfg" if ctx.quick else "MC_C17_thorough.cfg")
    def strings():
        for c in vlib.mc_cases(st17):
            txt = "".join(TEXT_ATOMS.get(a, a) for a in c["atoms"])
            comps = [{"kind": "USED", "id": 1, "cr": "GASNATURAL", "srv": "CAL", "src": "-", "v": [3, 1], "cm": txt},
                     {"kind": "USED", "id": 1, "cr": "GASNATURAL", "srv": "ACS", "src": "-", "v": [1, 1], "cm": txt},
                     {"kind": "PROD", "id": 0, "cr": "-", "srv": "-", "src": "EL_INSITU", "v": [2, 2], "cm": txt},
                     {"kind": "OUT", "id": 1, "cr": "-", "srv": "CAL", "src": "-", "v": [2, 1], "cm": txt},
                     {"kind": "OUT", "id": 1, "cr": "-", "srv": "ACS", "src": "-", "v": [1, 1], "cm": txt},
                     {"kind": "AUX", "id": 1, "cr": "-", "srv": "-", "src": "-", "v": [1, 1], "cm": txt}]
            yield {"src": {"comps": comps}, "meta": [["CTE_NOTA", txt], ["Otra", txt]], "atoms": c["atoms"],
                   "parse_log": True, "parse_only": True, "reps": 1}
    ctx.replay(strings(), "strings", "Trace_C05", keep=lambda c: {"atoms": c["atoms"], "src": c["src"]})
    # files the program wrote and their user edited: DECLARED production lines that carry the comment the library gives
    # to the completions it generates ("@completion" is written out as that text) - they are declared lines all the
    # same: kept as they are, and the completion is what is still uncovered
    def edited_files():
        P = lambda i, src, v, cm: {"kind": "PROD", "id": i, "cr": "-", "srv": "-", "src": src, "v": v, "cm": cm}
        U = lambda i, cr, srv, v: {"kind": "USED", "id": i, "cr": cr, "srv": srv, "src": "-", "v": v, "cm": ""}
        for cr in ("EAMBIENTE", "TERMOSOLAR"):
            for prod in ([20, 35], [30, 30], [0, 5], [50, 50]):
                for extra in ([], [P(2, cr, [4, 4], "@completion")]):
                    comps = [U(1, cr, "CAL", [30, 30]), U(1, "ELECTRICIDAD", "CAL", [10, 10]), P(1, cr, prod, "@completion")] + extra
                    yield {"name": "edited-file", "src": {"comps": comps}, "parse_log": True, "parse_only": True, "reps": 2}
    ctx.replay(edited_files(), "edited-files", "Trace_C05")
    ctx.replay(more(file_cases(None)), "files", "Trace_C05")
    ctx.replay(more(rnd(ctx, 300, 10000, None, integer=True, aux=True)), "random", "Trace_C05")
    ctx.extra.update(sched_stats(ctx))
    ctx.nontrivial = set(range(ctx.ncases))
    ctx.samples = [{"case": 1, "input": ctx.cases[1]["src"]["comps"], "note": "declared lines of the first lattice file; the Parse event adds the hook snapshots, the parsed result and its re-normalisation"}]
    ctx.assumptions = ["values are logged at 10^-4 kWh (lattice) / 10^-2 (files, random) and compared with one unit of slack", TRUST,
                       "model level: MC_Comp (all schedules of the normalisation state machine): Confluent, KeepsDeclared, Idempotent",
                       "files whose exact recomputation leaves 32 bits are reported as unjudged"]
    return ctx.finish("every file of the MC_Comp C05 family (TLC-enumerated tuples of system profiles with negative / shared ids) is parsed by the real parser several times (fresh hash order each time, recorded by the hooks); TLC checks the closed form max(0, use - declared) per system and step, bag inclusion of the declared lines, sortedness and idempotence; conformance to the state machine under the observed schedule is DRIFT")


def p_C06(ctx):
    st = ctx.mc("MC_Comp", "MC_Comp_C06_thorough.cfg")
    ctx.replay(stride(comp_cases(st, 3 if ctx.quick else 12, True), 2 if ctx.quick else 1, ctx.seed % 2 if ctx.quick else 0), "lattice", "Trace_C06")
    ctx.extra["lattice_files"] = ctx.ncases
    def more(cs):
        for c in cs:
            c["parse_log"] = True
            c["reps"] = 4
            c["parse_q"] = 2
            c["runs"] = [{"tag": "base"}]
            yield c
    ctx.replay(more(file_cases(None)), "files", "Trace_C06")
    ctx.replay(more(rnd(ctx, 300, 10000, None, integer=True, aux=True)), "random", "Trace_C06")
    ctx.extra.update(sched_stats(ctx))
    ctx.nontrivial = set(range(ctx.ncases))
    ctx.samples = [{"case": 1, "input": ctx.cases[min(ctx.cases)]["src"].get("comps"), "note": "declared lines of one lattice file"}]
    ctx.assumptions = ["values are logged at 10^-4 kWh (lattice) / 10^-2 (files, random)", TRUST,
                       "mixed systems (one EPB service next to NEPB / COGEN uses) only have to conserve energy: the statement does not fix them",
                       "model level: MC_Comp (all schedules): Confluent, AuxAssigned (P_C06), Idempotent"]
    return ctx.finish("every file of the MC_Comp C06 family (1-3 systems with auxiliaries: single / multi service, cooling, zero-output steps, missing outputs, auxiliaries as the only electricity) is parsed (several hash orders) and evaluated; TLC checks P_C06 per system on (declared, parsed) and that the assigned auxiliaries are EPB electricity use of the balance; quick tier replays half of the 3-system family")


def c07_cases(st, shape_stride, seed):
    n = 0
    for c in vlib.mc_cases(st):
        shapes = c.pop("shapes")
        n += 1
        pc = dict(c)
        if n % 3 == 0 and pc.get("fac", {}).get("mode") in ("str", "raw"):
            pc["fac"] = dict(pc["fac"], layout=True)      # every third file in an unusual but valid layout
        pc["prepare_log"] = True
        pc["prepare_only"] = True
        pc["group"] = n
        yield pc
        if n % shape_stride == seed % shape_stride:
            for i, sh in enumerate(shapes):
                yield {"group": n, "fac": c["fac"], "src": {"comps": sh}, "kexp": [1, 2], "area": [1, 1], "lm": False,
                       "runs": [{"tag": "shape%d" % i}]}


def p_C07(ctx):
    st = ctx.mc("MC_C07", "MC_C07_quick.cfg" if ctx.quick else "MC_C07_thorough.cfg", timeout=3000)
    ctx.replay(c07_cases(st, 4 if ctx.quick else 8, ctx.seed), "subsets", "Trace_C07")
    ctx.extra["factor_files"] = st["states"]
    if ctx.quick:
        st2 = ctx.mc("MC_C07", "MC_C07_dup.cfg")
        ctx.replay(c07_cases(st2, 8, ctx.seed), "dup", "Trace_C07")
    # history  Prepare ; Edit ; Prepare: sets the library has prepared (complete: nothing is left to add) are edited - a
    # factor fixed by the method gets another value, a fuel line that is not a grid factor is appended - and prepared
    # again: the fixed factors are forced again and the unusable set is refused (Factors!FromList does not care
    # whether its input was prepared before)
    first = ctx.last_trace if not ctx.quick else os.path.join(WORK, "run", ctx.pid, "subsets.ndjson")
    def edited():
        k = 0
        for line in open(first):
            e = json.loads(line)
            if e.get("ev") != "Prepare" or not e["out"].get("ok"):
                continue
            k += 1
            if k % (11 if ctx.quick else 23) != ctx.seed % 11:
                continue
            lst = e["out"]["list"]
            forced = [i for i, f in enumerate(lst) if f["dest"] == "SUMINISTRO" and f["step"] == "A" and
                      ((f["cr"] in ("EAMBIENTE", "TERMOSOLAR")) or (f["cr"] == "ELECTRICIDAD" and f["src"] == "INSITU"))]
            if forced:
                l2 = json.loads(json.dumps(lst))
                l2[forced[k % len(forced)]]["m"] = [900, 100, 50]
                yield {"fac": {"mode": "str", "lines": l2}, "prepare_log": True, "prepare_only": True, "name": "prepared-then-edited"}
            crs = {f["cr"] for f in lst}
            extra = next((c for c in ("BIOMASA", "GASOLEO", "CARBON") if c not in crs), None)
            if extra:
                l3 = json.loads(json.dumps(lst)) + [{"cr": extra, "src": "INSITU", "dest": "SUMINISTRO", "step": "A", "m": [300, 400, 500]}]
                yield {"fac": {"mode": "str", "lines": l3}, "prepare_log": True, "prepare_only": True, "name": "prepared-then-extended"}
    ctx.replay(edited(), "edited", "Trace_C07")
    locs = []
    for loc in ("PENINSULA", "BALEARES", "CANARIAS", "CEUTAMELILLA"):
        for r1 in (None, [501, 601, 701]):
            for r2 in (None, [502, 602, 702], [0, 0, 0]):
                fac = {"mode": "loc", "loc": loc}
                if r1:
                    fac["red1"] = r1
                if r2:
                    fac["red2"] = r2
                locs.append({"fac": fac, "prepare_log": True, "prepare_only": True})
    for f in ("factores_paso_PENINSULA_20140203.csv", "factores_paso_test.csv"):
        locs.append({"fac": {"mode": "file", "path": REPO + "/test_data/" + f}, "prepare_log": True, "prepare_only": True})
    ctx.replay(locs, "locations", "Trace_C07")
    ctx.nontrivial = set(range(ctx.ncases))
    ctx.extra["exhaustive"] = True
    ctx.samples = [{"case": k, "fac": ctx.cases[k].get("fac")} for k in list(ctx.cases)[5:8]]
    ctx.assumptions = ["factor values are three-decimal numbers, logged in thousandths and compared exactly", TRUST,
                       "the universe of candidate lines is the one of MC_C07 (11 lines quick, 16 thorough); every line has a distinct value"]
    return ctx.finish("ALL subsets of the universe of candidate factor lines x user RED1/RED2 given or not (plus a duplicated-key variant and the four locations) are prepared by the real library; TLC evaluates respect of user values, provenance of the export defaults, RED1/RED2 precedence, idempotence and rejection of unusable sets on (file, prepared list), and every building shape over the carriers of a prepared set must evaluate without missing factor; the look-ups recorded by the Find hook are compared with Balance!NeededKeys (DRIFT)")


def order_stats(ctx):
    seen = {}
    for n in ctx.notes:
        if "order" in n:
            seen.setdefault(n["case"], set()).add(json.dumps(n["order"]))
    return {"groups_with_repeats": len(seen), "distinct_orders_seen": sum(len(v) for v in seen.values()),
            "groups_with_several_orders": sum(1 for v in seen.values() if len(v) > 1)}


def p_C10(ctx):
    st = ctx.mc("MC_C10", "MC_C10_quick.cfg" if ctx.quick else "MC_C10_thorough.cfg", timeout=3000)
    by = {}
    for c in vlib.mc_cases(st):
        by.setdefault(c["base"], []).append(c)
    groups = []
    nrew = 0
    for b, cs in sorted(by.items()):
        cs.sort(key=lambda c: c["depth"])
        base, rest = cs[0], cs[1:]
        nrew += len(rest)
        for i in range(0, len(rest), 40):
            for loc, lm in (("PENINSULA", False), ("CANARIAS", True)):
                groups.append({"srcs": [base["src"]] + [c["src"] for c in rest[i:i + 40]],
                               "fac": {"mode": "loc", "loc": loc}, "kexp": [1, 2], "area": [5, 2], "lm": lm})
    ctx.replay(groups, "rewritings", "Trace_C10", keep=lambda c: {"base": c["srcs"][0], "n": len(c["srcs"])})
    ctx.extra["rewritten_files"] = nrew
    # repeated evaluations: parse + evaluate again and again (fresh hash orders), lattice buildings, shipped files, random buildings
    reps = 12 if ctx.quick else 48
    def repeat(cs):
        for c in cs:
            src = dict(c["src"])
            yield {"name": c.get("name"), "srcs": [dict(src, tag="rep%d" % i) for i in range(reps)],
                   "fac": c["fac"], "kexp": c["kexp"], "area": c["area"], "lm": c["lm"]}
    lat = lattice(ctx)
    ctx.replay(repeat(stride(vlib.mc_cases(lat), 60 if ctx.quick else 6, ctx.seed % 60 if ctx.quick else 0)), "repeat-lattice", "Trace_C10",
               keep=lambda c: {"src": c["srcs"][0]})
    ctx.replay(repeat(file_cases(None)), "repeat-files", "Trace_C10", keep=lambda c: {"src": c["srcs"][0]})
    ctx.replay(repeat(rnd(ctx, 60, 2000, None, aux=True)), "repeat-random", "Trace_C10", keep=lambda c: {"src": c["srcs"][0]})
    c06 = ctx.mc("MC_Comp", "MC_Comp_C06_thorough.cfg")      # schedule part at model level: Confluent over all id orders
    def evalable(cs):
        for c in cs:
            c.update({"fac": {"mode": "loc", "loc": "PENINSULA"}, "kexp": [0, 1], "area": [1, 1], "lm": False})
            yield c
    ctx.replay(repeat(evalable(stride(vlib.mc_cases(c06), 12 if ctx.quick else 2, ctx.seed % 12 if ctx.quick else 0))), "repeat-aux", "Trace_C10",
               keep=lambda c: {"src": c["srcs"][0]})
    ctx.extra.update(order_stats(ctx))
    ctx.nontrivial = set(range(ctx.ncases))
    ctx.samples = [{"group": 1, "base_file_lines": groups[0]["srcs"][0], "one_rewriting": groups[0]["srcs"][1]}]
    ctx.assumptions = [TOL_NOTE, TRUST, "the harness writer (harness/src/abs.rs render_file) maps the token-level file of TextFormat.tla to bytes; byte-level layouts outside its atoms are not generated",
                       "the second-process clause is checked through the CLI in the C17/C19 checks (cteepbd --json on the same file twice)"]
    return ctx.finish("every file TLC reaches from 4 base files by rewriting sequences of depth <= 2 (quick) / 3 (thorough) (swap, split, renumber ids, comment, blank, remark, header, BOM, padding, id 0 explicit/omitted) is written, parsed and evaluated by the real code and compared with its base; each building of a second set (lattice, shipped files, random with auxiliaries, MC_Comp aux family) is parsed and evaluated 12 (48) times, the hash orders taken being recorded by the hooks")


def cli_replay(ctx, fn, recs, name, trace_module, shards=None):
    import cli
    d = os.path.join(WORK, "run", ctx.pid)
    os.makedirs(d, exist_ok=True)
    tpath = os.path.join(d, name + ".ndjson")
    out = []
    for r in recs:
        ctx.ncases += 1
        r["case"] = ctx.ncases
        ctx.cases[ctx.ncases] = r
        out.append(r)
    cli.run_many(fn, out, tpath)
    res = vlib.validate(trace_module, tpath, shards=shards)
    ctx.events += res["events"]
    ctx.verdicts += res["verdicts"]
    ctx.drifts += res["drifts"]
    ctx.unjudged += res["unjudged"]
    ctx.notes += res["notes"]
    if not res["accepted"]:
        ctx.rejected = True
    ctx.last_trace = tpath
    return res


def p_C19(ctx):
    import cli
    st = ctx.mc("MC_C19", "MC_C19_quick.cfg" if ctx.quick else "MC_C19_thorough.cfg", timeout=6000)
    cli_replay(ctx, cli.c19_case, list(vlib.mc_cases(st)), "configs", "Trace_C19")
    n19 = ctx.ncases
    trace19 = ctx.last_trace
    # the program state machine (spec/Program.tla): a run refused with 1 / 64 / 65 leaves no result
    pst = ctx.mc("MC_Program", "MC_Program_quick.cfg" if ctx.quick else "MC_Program_thorough.cfg", timeout=3000)
    cli_replay(ctx, cli.prog_case, list(stride(vlib.mc_cases(pst), 1 if ctx.quick else 12, 0)), "program", "Trace_Prog19")
    ctx.extra["program_configurations"] = ctx.ncases - n19
    ctx.extra["program_conformance_drift"] = len(ctx.drifts)
    ctx.last_trace = trace19
    ctx.nontrivial = set(range(ctx.ncases))
    ctx.extra["exhaustive"] = False
    ev = [json.loads(l) for l in open(ctx.last_trace).readlines()[100:103]]
    ctx.samples = [{"cfg": e["cfg"], "argv": e["argv"], "observed": {k: e["obs"][k] for k in ("exit", "origen", "oc")}} for e in ev]
    ctx.assumptions = ["the driver builds the components file, the factors file and argv from the configuration (driver/cli.py) and projects stdout / --json / --oc to the event; it makes no comparison",
                       "where the statement is silent (invalid metadata overridden by a valid option; invalid RED1/RED2 metadata) Cli!Allowed accepts both refusal (65) and ignoring it",
                       "-f together with --red1/--red2 is accepted by the tool (only -f with -l is refused by the option parser): the option wins over the file, as the statement says"]
    return ctx.finish("every configuration TLC enumerates from spec/Cli.tla (quick: the complete area x k_exp product and the complete location x RED1 x RED2 product, the other half by a covering function - some 6 500 runs; thorough: every area / k_exp quadruple with one eighth of the other parameters and the complete rest for the 36 quadruples without invalid value - some 340 000 runs) is executed by the real binary (debug profile); exit code, the three origin lines, effective k_exp / area / RED1 / RED2 in --json, write-back in --oc metadata and the per-m2 ratio are judged by TLC against Cli!Allowed")


def render_abs(comps):
    lines = []
    for x in comps:
        v = ", ".join(str(y) for y in x["v"])
        k = x["kind"]
        if k == "USED":
            lines.append("%d, CONSUMO, %s, %s, %s" % (x["id"], x["srv"], x["cr"], v))
        elif k == "PROD":
            lines.append("%d, PRODUCCION, %s, %s" % (x["id"], x["src"], v))
        elif k == "AUX":
            lines.append("%d, AUX, %s" % (x["id"], v))
        elif k == "OUT":
            lines.append("%d, SALIDA, %s, %s" % (x["id"], x["srv"], v))
        elif k == "NEED":
            lines.append("DEMANDA, %s, %s" % (x["srv"], v))
    return "\n".join(lines) + "\n"


def p_C16(ctx):
    import cli
    ctx.level = "fault_enumeration"
    st = ctx.mc("MC_C16", "MC_C16_quick.cfg" if ctx.quick else "MC_C16_thorough.cfg", timeout=6000)
    faults = list(vlib.mc_cases(st))
    # --- in-process: every library entry point on every enumerated text
    d = os.path.join(WORK, "run", ctx.pid)
    os.makedirs(d, exist_ok=True)
    cpath, tpath = os.path.join(d, "lib.cases"), os.path.join(d, "lib.ndjson")
    with open(cpath, "w") as f:
        for c in faults:
            ctx.ncases += 1
            c["case"] = ctx.ncases
            ctx.cases[ctx.ncases] = c
            f.write(json.dumps(c) + "\n")
    vlib.run_harness("fault", cpath, tpath)
    res = vlib.validate("Trace_C16", tpath)
    ctx.events += res["events"]
    ctx.verdicts += res["verdicts"]
    ctx.drifts += res["drifts"]
    ctx.unjudged += res["unjudged"]
    if not res["accepted"]:
        ctx.rejected = True
    # conformance of the parser to the token-level grammar of spec/Grammar.tla (DRIFT only)
    ctx.extra["grammar_predictions"] = len([n_ for n_ in res["notes"] if "predicted" in n_])
    ctx.extra["grammar_disagreements"] = len(res["drifts"])
    # distinct corrupted files that reached another parser branch than their base file
    branch = {}
    basebranch = {}
    for line in open(tpath):
        e = json.loads(line)
        sig = json.dumps([[s_["s"], s_["o"], s_.get("msg", "")[:25]] for s_ in e["stages"][:2]])
        if e["depth"] == 0:
            basebranch[(e["kind"], e["base"])] = sig
        branch[e["case"]] = (e["kind"], e["base"], sig, json.dumps(e["lines"]))
    distinct = {v[3] for v in branch.values() if v[1] != 0 and basebranch.get((v[0], v[1])) not in (None, v[2])}
    soups = {v[3] for v in branch.values() if v[1] == 0}
    ctx.extra["files_in_other_branch_than_base"] = len(distinct)
    ctx.extra["token_soups"] = len(soups)
    ctx.extra["fault_files"] = len(faults)
    sample_lib = [json.loads(l) for l in open(tpath).readlines()[200:202]]
    # --- out of process: the real program (debug profile) on the same bytes, on valid texts and on option atoms
    metaf = [c for c in faults if c.get("base", 0) < 0]      # interpreted metadata with atoms as values, long refused lines: always all of them
    other = [c for c in faults if c.get("base", 0) >= 0]
    recs = [dict(c) for c in metaf + (other if not ctx.quick else other[::2] + other[1::6])]
    texts = [{"kind": "text", "text": t, "loc": loc} for t in C08_SHAPES for loc in ("PENINSULA", "CANARIAS")]
    texts += [{"kind": "text", "text": t, "extra": ["-F"]} for t in C08_SHAPES]
    c06 = ctx.mc("MC_Comp", "MC_Comp_C06_thorough.cfg")
    texts += [{"kind": "text", "text": render_abs(c["src"]["comps"])} for c in stride(vlib.mc_cases(c06), 20 if ctx.quick else 2)]
    import gen
    texts += [{"kind": "text", "text": render_abs(c["src"]["comps"]), "extra": ["--load_matching"] if i % 2 else []}
              for i, c in enumerate(gen.cases(ctx.seed, 150 if ctx.quick else 3000, None, aux=True))]
    texts += [{"kind": "text", "text": open(p, encoding="utf-8", errors="replace").read()} for p in shipped_files()]
    atoms = ["", "abc", "ñ€", "NaN", "inf", "-inf", "1e39", "-0", "1e-46", "007", "+1", "1.", "#", "0", "1", "0.001", "1e-4", "-1", "2"]
    opts = [{"kind": "option", "argv": ["--arearef=" + a]} for a in atoms] + [{"kind": "option", "argv": ["--kexp=" + a]} for a in atoms]
    opts += [{"kind": "option", "argv": ["--arearef=" + a, "--kexp=" + b]} for a in ("NaN", "inf", "1e39") for b in ("NaN", "inf", "0.5")]
    for a in ("NaN", "inf", "1e39", "abc", "-0", "1"):
        for b in ("NaN", "-inf", "x", "0"):
            opts.append({"kind": "option", "argv": ["--red1", a, b, "0.3", "--red2", b, "1", a]})
    cli_replay(ctx, cli.fault_cli_case, recs + texts + opts, "cli", "Trace_C16")
    last_cli = ctx.last_trace
    # the spellings of a (ren, nren, co2) triple (spec/Triple.tla): every text TLC builds is read by RenNrenCo2::from_str and,
    # as a CTE_RED1 metadata value, by get_meta_rennren - never a panic; the outcome against Triple!ParseTriple is DRIFT
    tst = ctx.mc("MC_Triple", "MC_Triple_quick.cfg" if ctx.quick else "MC_Triple_thorough.cfg", timeout=3000)
    nt, nd0 = ctx.ncases, len(ctx.drifts)
    ctx.replay(stride(vlib.mc_cases(tst), 4 if ctx.quick else 1, ctx.seed % 4 if ctx.quick else 0), "triples", "Trace_Triple", mode="triple",
               keep=lambda c: {"text": c["text"]})
    ctx.extra["triple_texts"] = ctx.ncases - nt
    ctx.extra["triple_grammar_drift"] = len(ctx.drifts) - nd0
    # the program state machine (spec/Program.tla): unreadable / empty / foreign inputs, unwritable outputs, flags
    pst = ctx.mc("MC_Program", "MC_Program_quick.cfg" if ctx.quick else "MC_Program_thorough.cfg", timeout=3000)
    progs = list(stride(vlib.mc_cases(pst), 1 if ctx.quick else 6, 0))
    nd = len(ctx.drifts)
    cli_replay(ctx, cli.prog_case, progs, "program", "Trace_Prog16")
    ctx.extra["program_configurations"] = len(progs)
    ctx.extra["program_conformance_drift"] = len(ctx.drifts) - nd
    ctx.last_trace = last_cli
    ctx.extra["processes"] = len(recs) + len(texts) + len(opts) + len(progs)
    ctx.extra["evaluations"] = ctx.events
    ctx.nontrivial = distinct | soups
    sample_cli = [json.loads(l) for l in open(ctx.last_trace).readlines()[50:52]]
    ctx.samples = [{"lines": e["lines"], "stages": e["stages"][:4]} for e in sample_lib] + \
                  [{"kind": e["kind"], "how": e["how"], "stderr_head": e["stderr_head"]} for e in sample_cli]
    ctx.assumptions = ["text is modelled at token level: the writers (harness/src/main.rs fault_bytes, driver/cli.py fault_bytes) map atoms to bytes; byte soup beyond the atom alphabet is not generated",
                       "a hang is observed as a 10 s wall-clock timeout of the process", "the debug profile of the binary is used (the profile of the pinned tests)",
                       "library entry points are called under catch_unwind in the harness; a panic is recorded as data"]
    return ctx.finish("model-driven fault enumeration: TLC enumerates all single faults (quick) / all fault pairs (thorough) of 5 components files and 2 factor files over 21 atoms, plus token soups; every text goes through every public library entry point under catch_unwind and through the real program (half of them in the quick tier), together with valid texts of every kind and numeric option atoms; oracle = terminal states of the specification (Ok / typed error; deliberate exit code with stderr); distinct_nontrivial = distinct corrupted files that reached another parser branch than their base file + distinct token soups")


TEXT_ATOMS = {"<NT>": "ñ", "<EU>": "€", "<C1>": "\x01", "<VT>": "\x0b"}


def p_C17(ctx):
    import cli
    st = ctx.mc("MC_C17", "MC_C17_quick.cfg" if ctx.quick else "MC_C17_thorough.cfg")
    lat = lattice(ctx)
    runs = [{"tag": "r1"}, {"tag": "r2"}]
    latc = list(stride(vlib.mc_cases(lat), 150 if ctx.quick else 15, ctx.seed % 150 if ctx.quick else 0))
    # --- free text: every string TLC enumerates, in a component comment, a metadata value and the factor comments
    def strings():
        k = 0
        for c in vlib.mc_cases(st):
            txt = "".join(TEXT_ATOMS.get(a, a) for a in c["atoms"])
            b = json.loads(json.dumps(latc[k % len(latc)]))
            k += 1
            b["src"]["comps"][0]["cm"] = txt
            b["meta"] = [["CTE_NOTA", txt]]
            if b["fac"]["mode"] == "str":
                b["fac"]["comment"] = txt
            b["render"] = True
            b["runs"] = [{"tag": "r1"}]
            b["atoms"] = c["atoms"]
            yield b
    ctx.replay(strings(), "strings", "Trace_C17", keep=lambda c: {"atoms": c["atoms"], "src": c["src"], "fac": c["fac"]})
    ctx.extra["strings"] = ctx.ncases
    def rend(cs):
        for c in cs:
            c = dict(c)
            c["render"] = True
            c["runs"] = runs          # r1 / r2: the same input rendered twice
            yield c
            # the same building scaled so that its energies add up to a few million kWh (a very large building:
            # the property quantifies over large values) and eight times smaller, as cases of their own so that
            # each is logged with its own exponent
            if "comps" in c["src"]:
                tot = sum(abs(x) for k_ in c["src"]["comps"] for x in k_["v"]) + 1
                big = max(2, int(4.0e6 / tot))
                for tag, k in (("big", [big, 1]), ("small", [1, 8])):
                    c2 = dict(c)
                    c2["runs"] = [{"tag": tag, "mul": k}]
                    yield c2
    ctx.replay(rend(latc), "lattice", "Trace_C17")
    # large buildings with five services (sums of many f32 terms of some 1e5 - 1e6 kWh): every printed total is the number
    # the result holds, to the hundredth, and the same on every rendering
    def many_services():
        import random
        r = random.Random(ctx.seed + 17)
        for i in range(8 if ctx.quick else 200):
            comps = [{"kind": "USED", "id": k, "cr": ("ELECTRICIDAD", "GASNATURAL")[k % 2], "srv": srv, "src": "-",
                      "v": [round(r.uniform(1.0e5, 9.0e5), 2)], "cm": ""} for k, srv in enumerate(("CAL", "REF", "ACS", "VEN", "ILU"))]
            comps.append({"kind": "PROD", "id": 7, "cr": "-", "srv": "-", "src": "EL_INSITU", "v": [round(r.uniform(1.0e5, 5.0e5), 2)], "cm": ""})
            yield {"name": "many-services", "src": {"comps": comps}, "fac": {"mode": "loc", "loc": "PENINSULA"}, "kexp": [1, 2], "area": [1, 1], "lm": False,
                   "render": True, "runs": runs}
    ctx.replay(many_services(), "many-services", "Trace_C17")
    ctx.replay(rend(rnd(ctx, 40, 2000, None, aux=True)), "random", "Trace_C17")
    # DHW supply mixes of MC_C15 (the additional indicator of the report: a fraction that is exactly 0, exactly 1,
    # in between, or an error shown as a dash)
    st15 = ctx.mc("MC_C15", "MC_C15_quick.cfg" if ctx.quick else "MC_C15_thorough.cfg", timeout=3000)
    def mixes(cs):
        for c in cs:
            c = dict(c)
            c.update({"fac": {"mode": "loc", "loc": "PENINSULA", "red1": [500, 500, 100]}, "kexp": [0, 1], "area": [5, 2], "lm": False,
                      "render": True, "runs": [{"tag": "r1"}]})
            yield c
    fixed = [{"src": {"text": "1, CONSUMO, ACS, GASNATURAL, 100, 100\nDEMANDA, ACS, 90, 90"}},                      # exactly 0 %
             {"src": {"text": "1, CONSUMO, ACS, TERMOSOLAR, 30, 30\nDEMANDA, ACS, 30, 30"}},                      # exactly 100 %
             {"src": {"text": "1, CONSUMO, ACS, GASNATURAL, 100, 100"}}]                                          # no demand: a dash
    import itertools
    ctx.replay(mixes(itertools.chain(fixed, stride(vlib.mc_cases(st15), 997 if ctx.quick else 97, ctx.seed % 997 if ctx.quick else 0))), "dhw-mixes", "Trace_C17")
    # --- shipped files: library renderings (r1, r2) followed by the documents the real program writes for the same input
    d = os.path.join(WORK, "run", ctx.pid)
    files = shipped_files()
    cpath, tpath = os.path.join(d, "files.cases"), os.path.join(d, "files-lib.ndjson")
    tmp = os.path.join(d, "cli")
    import shutil
    shutil.rmtree(tmp, ignore_errors=True)
    os.makedirs(tmp, exist_ok=True)
    lexin = []
    with open(cpath, "w") as f:
        for pth in files:
            ctx.ncases += 1
            n = ctx.ncases
            c = {"case": n, "name": os.path.relpath(pth, REPO), "src": {"file": pth}, "fac": {"mode": "loc", "loc": "PENINSULA"},
                 "kexp": [0, 1], "area": [200, 1], "lm": False, "render": True, "runs": runs}
            ctx.cases[n] = c
            f.write(json.dumps(c) + "\n")
            out = {k: os.path.join(tmp, "%d.%s" % (n, k)) for k in ("xml", "txt", "json")}
            res = cli.run_proc(["-c", pth, "-l", "PENINSULA", "-F", "--arearef=200", "--kexp=0", "--xml", out["xml"], "--txt", out["txt"], "--json", out["json"]], tmp)
            lexin.append(dict(out, case=n, tag="cli", exit=res["exit"] if isinstance(res["exit"], int) else -1))
    # the same runs once more over paths that already hold longer documents (two copies of the largest document of
    # each format written above): what a run leaves in its output files is a function of that run alone, whatever
    # the paths held before (spec/Program.tla: Save replaces the file)
    big = {}
    for k in ("xml", "txt", "json"):
        cands = [x[k] for x in lexin if os.path.exists(x[k])]
        if cands:
            b = open(max(cands, key=os.path.getsize), "rb").read()
            big[k] = b + b
    over = []
    for x, pth in zip(list(lexin), files):
        out = {k: os.path.join(tmp, "%d.over.%s" % (x["case"], k)) for k in ("xml", "txt", "json")}
        for k in out:
            if k in big:
                open(out[k], "wb").write(big[k])
        res = cli.run_proc(["-c", pth, "-l", "PENINSULA", "-F", "--arearef=200", "--kexp=0", "--xml", out["xml"], "--txt", out["txt"], "--json", out["json"]], tmp)
        over.append(dict(out, case=x["case"], tag="cli-over", exit=res["exit"] if isinstance(res["exit"], int) else -1))
    ctx.extra["program_runs_over_existing_longer_files"] = len(over)
    vlib.run_harness("cases", cpath, tpath)
    lpath, t2 = os.path.join(d, "files-cli.in"), os.path.join(d, "files-cli.ndjson")
    with open(lpath, "w") as f:
        for x in lexin:
            f.write(json.dumps(x) + "\n")
    vlib.run_harness("lexfiles", lpath, t2)
    # interleave: library events of a case, then its CliDocs event
    merged = os.path.join(d, "files.ndjson")
    bycase = {}
    for line in open(t2):
        bycase[json.loads(line)["case"]] = line
    # the events of the runs over existing files follow the event of the run on fresh paths
    opath, t3 = os.path.join(d, "files-cli-over.in"), os.path.join(d, "files-cli-over.ndjson")
    with open(opath, "w") as f:
        for x in over:
            f.write(json.dumps(x) + "\n")
    vlib.run_harness("lexfiles", opath, t3)
    for line in open(t3):
        c_ = json.loads(line)["case"]
        bycase[c_] = bycase.get(c_, "") + line
    with open(merged, "w") as f:
        last = None
        for line in open(tpath):
            c = json.loads(line)["case"]
            if last is not None and c != last and last in bycase:
                f.write(bycase.pop(last))
            f.write(line)
            last = c
        if last in bycase:
            f.write(bycase.pop(last))
    res = vlib.validate("Trace_C17", merged)
    ctx.events += res["events"]
    ctx.verdicts += res["verdicts"]
    ctx.unjudged += res["unjudged"]
    if not res["accepted"]:
        ctx.rejected = True
    shutil.rmtree(tmp, ignore_errors=True)
    # the program state machine (spec/Program.tla) from the configurations in which an output path already holds a
    # document: a file the run writes holds nothing of it afterwards (FreshWhenWritten at model level)
    pst = ctx.mc("MC_Program", "MC_Program_quick.cfg" if ctx.quick else "MC_Program_thorough.cfg", timeout=3000)
    overs = [c for c in stride(vlib.mc_cases(pst), 1 if ctx.quick else 6, 0) if "over" in c["cfg"]["out"].values()]
    nd = len(ctx.drifts)
    cli_replay(ctx, cli.prog_case, overs, "program-over", "Trace_Prog17")
    ctx.extra["program_configurations_with_existing_outputs"] = len(overs)
    ctx.extra["program_conformance_drift"] = len(ctx.drifts) - nd
    ctx.nontrivial = set(range(ctx.ncases))
    e0 = json.loads(open(merged).readline())
    ctx.samples = [{"case": e0["case"], "xml_tokens_head": e0["doc"]["xml"][:8], "plain_entries_head": e0["doc"]["plain"][:8], "json": {k: e0["doc"]["json"][k] for k in ("valid", "reread", "ncomps", "nfac")}}]
    ctx.assumptions = ["the lexers of the harness (harness/src/lex.rs: XML subset, positional plain-report lexer) are trusted; they only tokenise",
                       "a printed number is compared with the logged f32 value at its printed precision (half a unit of the last digit + one logging unit)",
                       "between two runs a printed digit may differ by one unit (f32 sums in hash order); order and keys of every table must be identical",
                       "comment text is not compared with its input (only well-formedness is claimed for free text)"]
    return ctx.finish("every string of at most 2 (3) atoms from Output!TextAtoms (TLC-enumerated) is placed in a component comment, a metadata value and the factor comments of a lattice building that is then rendered; lattice buildings, random buildings and all shipped files are rendered twice; for the shipped files the documents written by the real program (--xml --txt --json) are lexed and compared too; TLC judges XML by a pushdown acceptor + element counts + numeric leaves, every number of the plain report against the value of its path, the JSON re-read and run-to-run stability")


def p_C18(ctx):
    import cli, shutil
    ctx.mc("MC_C18", "MC_C18_quick.cfg")
    lat = lattice(ctx)
    runs = [{"tag": "orig"}, {"tag": "reload", "reload": True}]
    def rt(cs, cm=None):
        for k, c in enumerate(cs):
            c = json.loads(json.dumps(c))
            c["roundtrip"] = True
            c["runs"] = runs
            if cm and "comps" in c["src"]:
                c["src"]["comps"][0]["cm"] = cm
                c["meta"] = [["CTE_AREAREF", "12.5"], ["Nota", "texto libre"]]
            yield c
    ctx.replay(rt(stride(vlib.mc_cases(lat), 30 if ctx.quick else 3, ctx.seed % 30 if ctx.quick else 0), "comentario 1"), "lattice", "Trace_C18")
    # free text: every string TLC enumerates over Output!TextAtoms (markup characters, '#', ':', ',', blanks, non-ASCII and
    # control characters) as a component comment, a metadata value and a factor comment, written and read back
    st17 = ctx.mc("MC_C17", "MC_C17_quick.cfg" if ctx.quick else "MC_C17_thorough.cfg")
    latc = list(stride(vlib.mc_cases(lat), 150 if ctx.quick else 15, ctx.seed % 150 if ctx.quick else 0))
    def strings():
        k = 0
        for c in vlib.mc_cases(st17):
            txt = "".join(TEXT_ATOMS.get(a, a) for a in c["atoms"])
            b = json.loads(json.dumps(latc[k % len(latc)]))
            k += 1
            b["src"]["comps"][0]["cm"] = txt
            b["src"]["comps"][-1]["cm"] = txt + "x"
            b["meta"] = [["CTE_NOTA", txt], ["Otra nota", "y" + txt]]
            if b["fac"]["mode"] == "str":
                b["fac"]["comment"] = txt
            b["roundtrip"] = True
            b["runs"] = runs
            b["atoms"] = c["atoms"]
            yield b
    ctx.replay(strings(), "strings", "Trace_C18", keep=lambda c: {"atoms": c["atoms"], "src": c["src"], "fac": c["fac"]})
    ctx.replay(rt(file_cases(None, locs=("PENINSULA", "CANARIAS"))), "files", "Trace_C18")
    ctx.replay(rt(rnd(ctx, 150, 5000, None, aux=True)), "random", "Trace_C18")
    c06 = ctx.mc("MC_Comp", "MC_Comp_C06_thorough.cfg")
    def evalable(cs):
        for c in cs:
            c.update({"fac": {"mode": "loc", "loc": "PENINSULA"}, "kexp": [0, 1], "area": [1, 1], "lm": False})
            yield c
    def tiny(cs):
        # every other system of the family once more with the consumption of ONE of its services below the printed
        # precision (0.004 kWh at every step: written as 0.00): the service is still one of the system's services
        for k, c in enumerate(cs):
            yield c
            if k % 2 == 0:
                comps = c["src"].get("comps") or []
                ids = {x["id"] for x in comps if x["kind"] == "AUX"}
                first = next((x for x in comps if x["kind"] == "USED" and x["id"] in ids and any(v for v in x["v"])), None)
                if first is not None and len({x["srv"] for x in comps if x["kind"] == "USED" and x["id"] == first["id"]}) > 1:
                    c2 = json.loads(json.dumps(c))
                    for x in c2["src"]["comps"]:
                        if x["kind"] == "USED" and x["id"] == first["id"] and x["srv"] == first["srv"]:
                            x["v"] = [0.004] * len(x["v"])
                    c2["name"] = "tiny-consumption"
                    yield c2
    ctx.replay(rt(tiny(evalable(stride(vlib.mc_cases(c06), 12 if ctx.quick else 2)))), "aux-family", "Trace_C18")
    # three-decimal values exercise the rounding of the printed form
    three = [{"src": {"text": "0, CONSUMO, ILU, ELECTRICIDAD, 1.005, 0.125\n0, PRODUCCION, EL_INSITU, 2.675, 0.004\n1, CONSUMO, ACS, EAMBIENTE, 3.333, 1.115\nDEMANDA, ACS, 4.445, 1.005"},
              "fac": {"mode": "file", "path": REPO + "/test_data/factores_paso_test.csv"}, "kexp": [1, 2], "area": [1, 1], "lm": False}]
    # negative values (energy absorbed: SALIDA and DEMANDA of REF), among them values between -1 and 0
    three.append({"src": {"text": "2, CONSUMO, REF, ELECTRICIDAD, 1.50, 0.30, 2.00\n2, SALIDA, REF, -0.40, -12.50, -0.05\n2, CONSUMO, CAL, ELECTRICIDAD, 0.50, 0.00, 1.00\n2, SALIDA, CAL, 0.75, 0.00, 3.10\n2, AUX, 0.20, 0.10, 0.30\nDEMANDA, REF, -0.45, -3.00, -0.99\nDEMANDA, CAL, 0.70, 0.00, 2.90"},
                  "fac": {"mode": "loc", "loc": "PENINSULA"}, "kexp": [1, 2], "area": [1, 1], "lm": False})
    ctx.replay(rt(three), "three-decimals", "Trace_C18")
    # --- the metadata store (spec/MetaStore.tla): every behaviour TLC enumerates - load a text, set_meta, save + reload -
    # is made on a real Components and a real Factors value; Trace_Meta carries the store of the specification
    unbounded(ctx, "SetPost", module="MetaApa")
    stm = ctx.mc("MC_Meta", "MC_Meta_quick.cfg" if ctx.quick else "MC_Meta_thorough.cfg", timeout=3000)
    n0 = ctx.ncases
    ctx.replay(stride(vlib.mc_cases(stm), 4 if ctx.quick else 1, ctx.seed % 4 if ctx.quick else 0), "meta", "Trace_Meta", mode="meta",
               keep=lambda c: {"ops": [o["op"] for o in c["ops"]]})
    ctx.extra["metadata_store_behaviours"] = ctx.ncases - n0
    # --- the real program: run, save with --oc --of, run again on the saved files
    d = os.path.join(WORK, "run", ctx.pid)
    tmp = os.path.join(d, "cli")
    shutil.rmtree(tmp, ignore_errors=True)
    os.makedirs(tmp, exist_ok=True)
    texts = [(os.path.relpath(p, REPO), open(p, encoding="utf-8", errors="replace").read()) for p in shipped_files()]
    texts += [("shape%d" % i, t) for i, t in enumerate(C08_SHAPES)]
    import gen
    texts += [("random%d" % i, render_abs(c["src"]["comps"])) for i, c in enumerate(gen.cases(ctx.seed, 40 if ctx.quick else 1000, None, aux=True))]
    inp = []
    for name, text in texts:
        ctx.ncases += 1
        n = ctx.ncases
        ctx.cases[n] = {"name": name, "text": text}
        base = os.path.join(tmp, str(n))
        extra = []
        if n % 3 == 0:
            # user factors for the district networks given twice - metadata of the file and options with other
            # values - on a building that uses both networks: the saved files must carry the values used
            nsteps = 0
            for ln in text.splitlines():
                toks = [t.strip() for t in ln.split("#")[0].split(",")]
                if len(toks) > 2 and toks[0].lstrip("-").isdigit():
                    k = 0
                    for t in reversed(toks):
                        try:
                            float(t)
                            k += 1
                        except ValueError:
                            break
                    nsteps = k
                    break
            if nsteps:
                text = ("#META CTE_RED1: 0.5, 0.8, 0.1\n#META CTE_RED2: 0.1, 1.9, 0.4\n" + text.rstrip("\n")
                        + "\n77, CONSUMO, CAL, RED1, " + ", ".join(["7.5"] * nsteps) + "\n77, CONSUMO, ACS, RED2, " + ", ".join(["2.5"] * nsteps) + "\n")
                extra = ["--red1", "0.2", "1.1", "0.05"] if n % 2 else ["--red2", "0.9", "0.3", "0.02"]
                ctx.cases[n] = {"name": name, "text": text, "argv_extra": extra}
        # the location: given by option, and for two cases in three different from the one the file states
        loc = ("PENINSULA", "CANARIAS", "BALEARES", "CEUTAMELILLA")[n % 4]
        if n % 3 != 1:
            text = "#META CTE_LOCALIZACION: %s\n" % ("CANARIAS", "BALEARES", "CEUTAMELILLA", "PENINSULA")[n % 4] + text
            ctx.cases[n]["text"] = text
        ctx.cases[n]["loc"] = loc
        open(base + ".in.csv", "w").write(text)
        r1 = cli.run_proc(["-c", base + ".in.csv", "-l", loc, "--arearef=50.25", "--kexp=0.25" if n % 2 else "--kexp=0.75", "--oc", base + ".oc.csv", "--of", base + ".of.csv", "--json", base + ".j1"] + extra, tmp)
        inp.append({"case": n, "tag": "orig", "json": base + ".j1", "exit": r1["exit"] if isinstance(r1["exit"], int) else -1})
        if r1["exit"] == 0:
            r2 = cli.run_proc(["-c", base + ".oc.csv", "-f", base + ".of.csv", "--json", base + ".j2"], tmp)
            inp.append({"case": n, "tag": "reload", "json": base + ".j2", "exit": r2["exit"] if isinstance(r2["exit"], int) else -1})
            # ... and on the saved components alone: location, area, k_exp and user factors are then the recorded ones
            r3 = cli.run_proc(["-c", base + ".oc.csv", "--json", base + ".j3"], tmp)
            inp.append({"case": n, "tag": "reload-oc", "json": base + ".j3", "exit": r3["exit"] if isinstance(r3["exit"], int) else -1})
    ipath, tpath = os.path.join(d, "cli.in"), os.path.join(d, "cli.ndjson")
    with open(ipath, "w") as f:
        for x in inp:
            f.write(json.dumps(x) + "\n")
    vlib.run_harness("flatjson", ipath, tpath)
    res = vlib.validate("Trace_C18", tpath)
    ctx.events += res["events"]
    ctx.verdicts += res["verdicts"]
    ctx.unjudged += res["unjudged"]
    if not res["accepted"]:
        ctx.rejected = True
    if res["verdicts"]:
        for line in open(tpath):
            e = json.loads(line)
            ctx.vevents[(e.get("case"), e.get("tag"))] = {"comps": e.get("comps")}
    shutil.rmtree(tmp, ignore_errors=True)
    ctx.extra["cli_save_reload_runs"] = len(texts)
    ctx.nontrivial = set(range(ctx.ncases))
    ctx.samples = [{"case": 1, "src": ctx.cases[1]["src"], "runs": "RoundTrip event (printed lines, re-read set) then Eval orig / reload"}]
    ctx.assumptions = ["values are compared at the printed precision: half a printed unit per value (2 decimals for energies, 3 for factors)",
                       "an auxiliary line carries no service in the text format: auxiliaries are compared by their per-system sums after re-normalisation",
                       "when rounding to two decimals makes the re-normalisation add or drop a completion of one printed unit, components are compared per tag tuple",
                       "k_exp and the area are saved with two decimals (the precision of the reports): the CLI histories use such values (50.25 m2; 0.25 / 0.75)", TRUST]
    return ctx.finish("RoundTrip events: component and factor sets of lattice buildings (with comments and metadata), shipped files, random buildings with auxiliaries, the MC_Comp auxiliaries family and three-decimal values are written with the library's Display, tokenised, read back and evaluated again; the real program is run on shipped files, shapes and random buildings, saves with --oc --of and is run again on the saved files (results flattened from --json); TLC judges printed lines against TextFormat!PrintLine, the re-read sets and both evaluations")


def p_C15(ctx):
    st = ctx.mc("MC_C15", "MC_C15_quick.cfg" if ctx.quick else "MC_C15_thorough.cfg", timeout=3000)
    runs = [{"tag": "base"}, {"tag": "k1", "kexp": [1, 1]}, {"tag": "s3", "scale": [3, 1]}, {"tag": "s10", "scale": [1, 10]}, {"tag": "s64", "scale": [1, 64]},
            {"tag": "a1000", "area": [1000, 1]}, {"tag": "s64a1000", "scale": [1, 64], "area": [1000, 1]},
            {"tag": "no-nepb", "drop": "nepb"}, {"tag": "no-other", "drop": "other-nonelectric"}]
    def cfg(cs):
        # the district network RED1 half renewable (user factor) or, for every other mix, with the documented default
        # (0, 1.3, 0.3): a network without any renewable part
        for i, c in enumerate(cs):
            fac = {"mode": "loc", "loc": "PENINSULA", "red1": [500, 500, 100]} if i % 2 == 0 else {"mode": "loc", "loc": "PENINSULA"}
            c.update({"fac": fac, "kexp": [0, 1], "area": [1, 1], "lm": False, "runs": runs})
            yield c
    def select(cs):
        # quick tier: one mix in 58, but one in 24 of the mixes that have a flagged dimension (idle DHW electricity line,
        # tagged heat pump of another service, two-fuel cogenerator, second biomass boiler, other demands declared first)
        k = r = 0
        for c in cs:
            rare = c.pop("rare", False)
            if not ctx.quick:
                # thorough tier: one in three of the mixes with a flagged dimension (second boiler, other services'
                # demands, idle electricity line ...), every other one of the rest - the family has grown to several
                # hundred thousand mixes and each is evaluated nine times
                if rare:
                    r += 1
                else:
                    k += 1
                if (rare and r % 3 == 0) or (not rare and k % 2 == 0):
                    yield c
            elif rare:
                r += 1
                if r % 24 == ctx.seed % 24:
                    yield c
            else:
                k += 1
                if k % 58 == ctx.seed % 58:
                    yield c
    ctx.replay(cfg(select(vlib.mc_cases(st))), "mixes", "Trace_C15")
    ctx.samples += ctx.sample_from_trace(ctx.last_trace, 2, fields=("case", "tag", "comps"))
    ctx.extra["mixes"] = ctx.ncases
    ctx.replay(file_cases(runs, locs=("PENINSULA", "CANARIAS")), "files", "Trace_C15")
    ctx.replay(rnd(ctx, 150, 5000, runs, aux=True), "random", "Trace_C15")
    ctx.assumptions = ["the specification has '= 0' where the code has its 0.01 kWh thresholds (the quantifier only has values that are 0 or >= 0.01 kWh)",
                       "the DHW fraction (an f32 ratio) is compared within 2e-4 + 2e-4 relative", TRUST,
                       "components tagged CTEEPBD_EXCLUYE_* are not recomputed (TLC strings are atomic); they are only covered by the value/error, misc-key and invariance clauses"]
    return ctx.finish("TLC enumerates DHW supply mixes (2^7 x 3 combinations of direct electric, PV, heat pump, solar thermal, gas, district heat, biomass with/without output, densified biomass) x other services x non-EPB use x auxiliaries x demand {consistent, absent, zero}, checks range, closed forms, invariances and error classes on Acs!AcsFraction, and the mixes are replayed (one in 29 in the quick tier): TLC recomputes the fraction from the logged inputs and compares value or error class, misc keys and invariance under k_exp / scaling / removal of non-EPB use / removal of the other services' non-electric use; shipped files and random buildings add the relational clauses; non-trivial = cases with a fraction strictly between 0 and 1")


PROPS = {
    "C01": p_C01,
    "C15": p_C15,
    "C16": p_C16,
    "C17": p_C17,
    "C18": p_C18,
    "C19": p_C19,
    "C02": p_C02,
    "C03": p_C03,
    "C04": p_C04,
    "C05": p_C05,
    "C06": p_C06,
    "C07": p_C07,
    "C08": p_C08,
    "C09": p_C09,
    "C10": p_C10,
    "C11": p_C11,
    "C12": p_C12,
    "C13": p_C13,
    "C14": p_C14,
}


def run_property(pid, tier, seed, replay):
    ctx = Ctx(pid, tier, seed)
    vlib.build(cli=pid in ("C10", "C16", "C17", "C18", "C19"))
    if replay:
        return run_replay(ctx, replay)
    try:
        return PROPS[pid](ctx)
    finally:
        # the traces of a thorough run are large (GBs): they are removed once judged (replay files of violations are
        # kept under work/replay); VERIF_KEEP=1 keeps them for inspection
        if tier == "thorough" and not os.environ.get("VERIF_KEEP"):
            import shutil
            shutil.rmtree(os.path.join(WORK, "run", pid), ignore_errors=True)


def run_replay(ctx, path):
    rec = json.load(open(path))
    case = rec.get("case")
    if not case:
        log("replay file has no case")
        return 2
    tm = rec.get("trace_module", "Trace_" + ctx.pid)
    ctx.replay([case], "replay", tm, shards=1)
    return ctx.finish("replay of one recorded case")
