"""Per-property orchestration.  Each property function says which model configuration TLC
explores, which cases are replayed on the real code, which trace specification judges the
recorded trace, and how evidence is summarised."""
import glob
import json
import os
import time

import vlib
from vlib import ROOT, WORK, REPO, log, ToolError
import signatures


class Ctx:
    def __init__(self, pid, tier, seed):
        self.pid, self.tier, self.seed = pid, tier, seed
        self.t0 = time.time()
        self.states = 0
        self.transitions = 0
        self.mc_runs = []
        self.events = 0
        self.cases = {}          # case id -> case json (for replay files)
        self.ncases = 0
        self.verdicts = []
        self.drifts = []
        self.unjudged = []
        self.notes = []
        self.nontrivial = set()
        self.samples = []
        self.extra = {}
        self.assumptions = []
        self.level = "model_checking"
        self.rejected = False

    @property
    def quick(self):
        return self.tier != "thorough"

    def mc(self, module, cfg, **kw):
        st = vlib.run_mc(module, cfg, **kw)
        if not st["ok"]:
            raise ToolError("model checking of %s/%s failed: %s" % (module, cfg, st["errors"]))
        self.states += st["states"]
        self.transitions += st["transitions"]
        self.mc_runs.append({k: st[k] for k in ("module", "cfg", "states", "transitions", "wall", "cached")})
        return st

    def replay(self, cases, name, trace_module, mode="cases", shards=None, keep=None, args=None):
        """cases: iterable of case dicts (ids are assigned here); returns validation result"""
        d = os.path.join(WORK, "run", self.pid)
        os.makedirs(d, exist_ok=True)
        cpath = os.path.join(d, name + ".cases")
        tpath = os.path.join(d, name + ".ndjson")
        n0 = self.ncases
        with open(cpath, "w") as f:
            for c in cases:
                self.ncases += 1
                c["case"] = self.ncases
                self.cases[self.ncases] = c if keep is None else keep(c)
                f.write(json.dumps(c) + "\n")
        if self.ncases == n0:
            return None
        vlib.run_harness(mode, cpath, tpath, args=args)
        res = vlib.validate(trace_module, tpath, shards=shards)
        self.events += res["events"]
        self.verdicts += res["verdicts"]
        self.drifts += res["drifts"]
        self.unjudged += res["unjudged"]
        self.notes += res["notes"]
        if not res["accepted"]:
            self.rejected = True
        self.last_trace = tpath
        return res

    def sample_from_trace(self, tpath, n=3, fields=("case", "tag", "kexp", "area", "lm", "comps", "N")):
        out = []
        try:
            lines = open(tpath).readlines()
            step = max(1, len(lines) // n)
            for i in range(0, len(lines), step):
                e = json.loads(lines[i])
                s = {k: e[k] for k in fields if k in e}
                o = e.get("out", {})
                if o.get("ok"):
                    fl = o.get("flat", {})
                    s["observed"] = {k: fl[k] for k in list(fl)[:0]}
                    for k in ("bal.we.a.nren", "bal.we.b.nren", "bal.we.b.ren", "rer", "bal.del.grid", "bal.exp.an"):
                        if k in fl:
                            s["observed"][k] = fl[k]
                    s["p"] = e.get("p")
                else:
                    s["observed"] = o
                out.append(s)
                if len(out) >= n:
                    break
        except Exception as ex:  # samples are informative only
            out.append({"error": str(ex)})
        return out

    def finish(self, rule, explanation=None):
        pid = self.pid
        findings = [f for f in vlib.load_findings() if f.get("property") == pid]
        known_hit = {}
        violations = []
        for v in self.verdicts:
            case = self.cases.get(v.get("case"))
            classes = sorted({str(c).split(":")[0] for c in v.get("clauses", [])}) or ["unspecified"]
            uncovered = []
            for cl in classes:
                hit = None
                for f in findings:
                    if f.get("status") != "known" or f.get("class") != cl:
                        continue
                    sig = getattr(signatures, f.get("signature", ""), None)
                    if sig is not None and case is not None and sig(case, v):
                        hit = f
                        break
                if hit is None:
                    uncovered.append(cl)
                else:
                    known_hit.setdefault(hit["id"], [hit, 0])[1] += 1
            if uncovered:
                violations.append((v, uncovered))
        if self.rejected:
            violations.append(({"case": None, "clauses": ["trace-rejected"]}, ["trace-rejected"]))
        for fid, (f, n) in sorted(known_hit.items()):
            log("KNOWN-FINDING: property=%s %s (%s; %d case(s) this run)" % (pid, f["what"], fid, n))
        for d in self.drifts[:10]:
            log("DRIFT: property=%s case=%s clauses=%s" % (pid, d.get("case"), d.get("clauses")))
        if self.unjudged:
            log("NOTE: %d event(s) could not be judged by TLC (arithmetic outside 32 bits): %s"
                % (len(self.unjudged), self.unjudged[:3]))
        wall = time.time() - self.t0
        cov = dict(states=self.states, transitions=self.transitions,
                   traces_validated_against_impl=self.events,
                   evaluations=self.events, distinct_nontrivial=len(self.nontrivial),
                   rule=rule, samples=self.samples or [{"note": "no sample recorded"}],
                   model_runs=self.mc_runs, verdicts=len(self.verdicts), drift=len(self.drifts),
                   unjudged=len(self.unjudged), known_findings_hit={k: v[1] for k, v in known_hit.items()})
        if explanation:
            cov["explanation"] = explanation
        cov.update(self.extra)
        vlib.write_evidence(pid, self.tier, self.seed, self.level, cov, wall, len(violations), self.assumptions)
        if violations:
            seen = set()
            n = 0
            for v, cls in violations:
                key = tuple(cls)
                if key in seen and n >= 3:
                    continue
                seen.add(key)
                n += 1
                if n > 20:
                    break
                path = vlib.write_replay(pid, n, dict(property=pid, verdict=v, classes=cls,
                                                      case=self.cases.get(v.get("case"))))
                log("VIOLATION property=%s replay=%s classes=%s case=%s" % (pid, path, ",".join(cls), v.get("case")))
            log("property %s: %d violating event(s) in %d validated (%.0fs)" % (pid, len(violations), self.events, wall))
            return 1
        log("property %s held: %d model states, %d events validated against the implementation, "
            "%d known-finding hit(s), %.0fs" % (pid, self.states, self.events, sum(v[1] for v in known_hit.values()), wall))
        return 0


# ----------------------------------------------------------------------------- inputs
def shipped_files():
    fs = sorted(glob.glob(os.path.join(REPO, "test_data", "*.csv")) +
                glob.glob(os.path.join(REPO, "test_data", "extra", "*.csv")))
    return [f for f in fs if "factores" not in os.path.basename(f)]


def file_cases(runs, locs=("PENINSULA",), kexp=(0, 1), area=(1, 1)):
    for p in shipped_files():
        for loc in locs:
            yield {"name": os.path.relpath(p, REPO), "src": {"file": p}, "fac": {"mode": "loc", "loc": loc},
                   "kexp": list(kexp), "area": list(area), "lm": False, "runs": runs}


def with_runs(cases, runs):
    for c in cases:
        c = dict(c)
        c["runs"] = runs
        yield c


# ----------------------------------------------------------------------------- properties
def lattice(ctx):
    cfg = "MC_C02_quick.cfg" if ctx.quick else "MC_C02_thorough.cfg"
    return ctx.mc("MC_C02", cfg)


def p_C02(ctx):
    st = lattice(ctx)
    r = ctx.replay(vlib.mc_cases(st), "lattice", "Trace_C02")
    ctx.samples += ctx.sample_from_trace(ctx.last_trace, 2)
    nl = ctx.events
    runs = [{"tag": "base"}, {"tag": "k1", "kexp": [1, 1]}, {"tag": "k3", "kexp": [3, 10], "area": [5, 2]}]
    ctx.replay(file_cases(runs), "files", "Trace_C02")
    ctx.samples += ctx.sample_from_trace(ctx.last_trace, 1)
    ctx.nontrivial = set(range(nl))
    ctx.extra["exhaustive"] = True
    ctx.extra["lattice_cases"] = nl
    ctx.assumptions = ["f32 results are compared with the exact rational result within 5e-5 of the case magnitude + 2 units (DESIGN.md 3)",
                       "harness writer / flattener (harness/src/abs.rs, flat.rs) trusted",
                       "shipped files with non-integer values or 12-step load matching are outside the 32-bit exact arithmetic and are not recomputed (counted as skipped by the trace specification)"]
    return ctx.finish("every building of the MC_C02 lattice (TLC-enumerated, exhaustive for the configured value sets) is replayed on the real library; every numeric field of EnergyPerformance is compared with Balance!Evaluate; non-trivial = lattice cases (all have at least two carriers)")


PROPS = {
    "C02": p_C02,
}


def run_property(pid, tier, seed, replay):
    ctx = Ctx(pid, tier, seed)
    vlib.build(cli=False)
    if replay:
        return run_replay(ctx, replay)
    return PROPS[pid](ctx)


def run_replay(ctx, path):
    rec = json.load(open(path))
    case = rec.get("case")
    if not case:
        log("replay file has no case")
        return 2
    tm = rec.get("trace_module", "Trace_" + ctx.pid)
    ctx.replay([case], "replay", tm, shards=1)
    return ctx.finish("replay of one recorded case")
