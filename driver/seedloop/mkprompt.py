import json,sys,re
pid, wt = sys.argv[1], sys.argv[2]
props={json.loads(l)['id']:json.loads(l) for l in open('/verif/properties.jsonl')}
p=props[pid]
# exclusion list from DESIGN table
ex=[]
for l in open('/verif/DESIGN.md'):
    m=re.match(r'\| ([C0-9a-z, -]+) \| (.*?) \| (.*?) \|',l)
    if m and pid+'-' in m.group(1):
        ex.append('- %s (needs: %s)'%(m.group(2),m.group(3)))
extra = open('/tmp/wt/extra_%s.txt'%pid).read() if __import__('os').path.exists('/tmp/wt/extra_%s.txt'%pid) else ''
print(f"""You are helping to evaluate a verification effort for the Rust project energiacte/cteepbd (library + CLI computing building energy performance per EN ISO 52000-1 for Spain's CTE DB-HE). Your scratch git worktree of the repository is {wt} (work ONLY there; never touch /repo or /verif, do not read anything under /verif). The sandbox has no network: always use `cargo ... --offline`.

Here is one semantic property that the project is supposed to satisfy:

ID: {p['id']}
Title: {p['title']}
Statement: {p['statement']}
Quantified over: {p['quantifier']['text']}
Why the existing tests cannot settle it: {p['why_tests_cant']}
Code anchors: {json.dumps(p['anchors'],ensure_ascii=False)}

YOUR TASK: write a realistic change to the source code (under src/, as a maintainer might plausibly make: a refactoring slip, an "optimisation", a misplaced guard, a wrong operand, two cooperating sites that each look fine alone ...) that BREAKS this property while
  (a) still compiling (`cargo build --offline`),
  (b) keeping the whole existing test suite green (`cargo test --workspace --no-fail-fast --offline`, 90 tests), and
  (c) needing something SPECIFIC to manifest: an unusual but valid input, a particular combination of components/steps/options, a multi-step sequence of operations (e.g. save then reload, evaluate twice, normalise twice), a specific magnitude, or two cooperating sites. It must NOT be something that ordinary use would expose at once (not every input must break).

Sites and mechanisms ALREADY USED by earlier changes for this property (pick a DIFFERENT site and a different mechanism; novelty matters):
{chr(10).join(ex) if ex else '- (none)'}
{extra}
Deliverables, all inside the worktree {wt}:
  1. The change itself left as UNCOMMITTED modifications of files under src/ (do not commit, do not touch existing tests, do not edit Cargo.toml unless unavoidable, do not touch src/verif.rs or anything behind the `verif_hooks` feature).
  2. A demonstration `tests/demo_test.rs` (an integration test using the public API of the crate `cteepbd`, and/or running the built binary via env!("CARGO_BIN_EXE_cteepbd")) that FAILS with your change and PASSES on the original code. The demonstration must assert the property itself (as stated above), not an implementation detail.
  3. A short `SEED_README.md` at the worktree root: what the change is (site, mechanism), which clause of the property breaks, what is needed for it to manifest, and why the existing tests do not see it.

Before you finish, verify yourself: existing tests pass with the change; `cargo test --offline --test demo_test` fails with the change; after `git stash` of the src changes the demo passes; then `git stash pop` so that the change is left in place. Keep the change small (a few lines to a few dozen). In your final answer give: the files touched, a 3-line summary of the change, what it needs to manifest, and the results of your three verifications.""")
