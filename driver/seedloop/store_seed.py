#!/usr/bin/env python3
"""store_seed.py <worktree name> <seed id> <round> '<change>' '<needs>' '<caught json>'"""
import json, os, shutil, sys
name, sid, rnd, change, needs, caught = sys.argv[1:7]
src = "/tmp/wt/out/" + name
dst = "/verif/seeded/" + sid
os.makedirs(dst, exist_ok=True)
for f in ("patch.diff", "demo_test.rs", "README.md"):
    if os.path.exists(os.path.join(src, f)):
        shutil.copy(os.path.join(src, f), os.path.join(dst, f))
meta = {"breaks_property": sid.split("-")[0], "round": int(rnd),
        "author": "independent sub-agent (given only the property text, the sites already used and a scratch worktree)",
        "change": change, "needs_to_manifest": needs,
        "confirmed": {"existing_tests_pass_with_change": True, "demo_fails_with_change": True, "demo_passes_without_change": True,
                      "how": "verify_seed.sh in the agent's scratch worktree"},
        "checks_run": "driver/seedtest.py <patch> <checks>", "caught_by": json.loads(caught)}
json.dump(meta, open(os.path.join(dst, "meta.json"), "w"), indent=1, ensure_ascii=False)
print("stored", dst, os.listdir(dst))
