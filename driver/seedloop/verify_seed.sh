#!/bin/bash
# verify_seed.sh <name>: worktree /tmp/wt/<name> holds uncommitted changes under src/ (and maybe Cargo.toml) plus tests/demo_test.rs
set -u
W=/tmp/wt/$1; cd $W || exit 2
export CARGO_NET_OFFLINE=true
mkdir -p /tmp/wt/out/$1
git diff -- . ':(exclude)tests/demo_test.rs' > /tmp/wt/out/$1/patch.diff
cp tests/demo_test.rs /tmp/wt/out/$1/demo_test.rs || { echo "NO DEMO"; exit 2; }
[ -f SEED_README.md ] && cp SEED_README.md /tmp/wt/out/$1/README.md
echo "--- patch lines: $(wc -l < /tmp/wt/out/$1/patch.diff); files: $(git diff --stat -- . ':(exclude)tests/demo_test.rs' | tail -1)"
mv tests/demo_test.rs /tmp/wt/out/$1/.demo_hold.rs
echo "--- 1. existing tests with change"
cargo test --workspace --no-fail-fast --offline 2>&1 | grep -E "^test result|FAILED|failed|error" | head -20
mv /tmp/wt/out/$1/.demo_hold.rs tests/demo_test.rs
echo "--- 2. demo with change (must FAIL)"
cargo test --offline --test demo_test 2>&1 | grep -E "^test |^test result|error" | head -20
echo "--- 3. demo without change (must PASS)"
FILES=$(git diff --name-only -- . ':(exclude)tests/demo_test.rs')
git checkout -- $FILES
cargo test --offline --test demo_test 2>&1 | grep -E "^test |^test result|error" | head -20
git apply /tmp/wt/out/$1/patch.diff
echo "--- done"
