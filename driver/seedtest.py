#!/usr/bin/env python3
"""Runs checks against a seeded change:  seedtest.py <patch.diff> [C01 C02 ...]
Applies the patch to /repo (git apply), runs the quick checks listed (default: all), reverts
(git checkout -- .) and prints which checks reported a violation."""
import json, os, subprocess, sys, time
ROOT = os.path.dirname(os.path.dirname(os.path.abspath(__file__)))
patch = os.path.abspath(sys.argv[1])
props = sys.argv[2:] or ["C%02d" % i for i in range(1, 20)]
assert subprocess.run(["git", "-C", "/repo", "status", "--porcelain", "--untracked-files=no"], capture_output=True, text=True).stdout.strip() == "", "/repo not clean"
r = subprocess.run(["git", "-C", "/repo", "apply", patch])
if r.returncode != 0:
    sys.exit("patch does not apply")
res = {}
try:
    for p in props:
        t = time.time()
        r = subprocess.run([os.path.join(ROOT, "check"), p, "--tier", "quick"], capture_output=True, text=True, cwd=ROOT)
        cls = sorted({x for l in r.stdout.splitlines() if l.startswith("VIOLATION") for x in l.split("classes=")[1].split()[0].split(",")})
        res[p] = (r.returncode, cls[:6], round(time.time() - t))
        print(p, r.returncode, cls[:6], "%ds" % (time.time() - t), flush=True)
finally:
    subprocess.run(["git", "-C", "/repo", "checkout", "--", "."])
print(json.dumps({k: v for k, v in res.items()}))
