"""./check --selftest : demonstrates that the trace specifications are bound to what is recorded.
For a handful of properties it takes the trace recorded by the last run of the check (or records one),
corrupts ONE logged field / drops ONE hook event / inserts ONE abnormal outcome, and requires TLC to
report it; the untouched prefix must be accepted.  Exit 0 iff every corruption is noticed."""
import json
import os
import sys

import vlib
from vlib import WORK, log


def first_events(path, n, pred=lambda e: True):
    out = []
    for line in open(path):
        e = json.loads(line)
        if pred(e):
            out.append(e)
        if len(out) >= n:
            break
    return out


def run(module, events, name):
    d = os.path.join(WORK, "selftest")
    os.makedirs(d, exist_ok=True)
    p = os.path.join(d, name + ".ndjson")
    with open(p, "w") as f:
        for e in events:
            f.write(json.dumps(e) + "\n")
    return vlib.validate(module, p, shards=1)


def corrupt_flat(e, key_part, f=lambda v: v * 2 + 7):
    e = json.loads(json.dumps(e))
    for k in e["out"]["flat"]:
        if key_part in k and e["out"]["flat"][k] != 0:
            e["out"]["flat"][k] = f(e["out"]["flat"][k])
            return e, k
    return None, None


CASES = []


def case(fn):
    CASES.append(fn)
    return fn


def need(pid, name):
    p = os.path.join(WORK, "run", pid, name + ".ndjson")
    if not os.path.exists(p):
        import props
        log("selftest: recording a trace for", pid)
        props.run_property(pid, "quick", 1, None)
    return p


@case
def c01_flow():
    ev = first_events(need("C01", "lattice"), 40, lambda e: e["out"]["ok"] and "cr.ELECTRICIDAD.exp.grid_t.1" in e["out"]["flat"])
    bad, k = next((x for x in (corrupt_flat(e, "cr.ELECTRICIDAD.exp.grid_t.1", lambda v: v + 50000) for e in ev) if x[0]), (None, None))
    ok0 = run("Trace_C01", ev[:10], "c01-clean")
    r = run("Trace_C01", ev[:10] + [bad], "c01-bad")
    return "C01 one exported-to-grid value changed (%s)" % k, not ok0["verdicts"] and len(r["verdicts"]) == 1


@case
def c02_field():
    ev = first_events(need("C02", "lattice"), 30, lambda e: e["out"]["ok"])
    bad, k = corrupt_flat(ev[5], "we.b.nren", lambda v: v + 400)
    r = run("Trace_C02", ev[:5] + [bad], "c02-bad")
    return "C02 one weighted value off by 400 units (%s)" % k, len(r["verdicts"]) == 1


@case
def c04_total():
    ev = first_events(need("C04", "lattice"), 30, lambda e: e["out"]["ok"] and e["tag"] == "base")
    bad, k = corrupt_flat(ev[3], "bal.used.epus", lambda v: v + 3000)
    r = run("Trace_C04", ev[:3] + [bad], "c04-bad")
    return "C04 one total changed (%s)" % k, len(r["verdicts"]) == 1


@case
def c05_hook_dropped():
    ev = first_events(need("C05", "lattice"), 200, lambda e: e["ev"] == "Parse" and len(e["steps"]) >= 3)
    e = json.loads(json.dumps(ev[0]))
    del e["steps"][0]
    r = run("Trace_C05", ev[1:4] + [e], "c05-bad")
    return "C05 one hook event removed from a recorded normalisation", len(r["drifts"]) == 1 and not r["verdicts"]


@case
def c05_completion_changed():
    ev = first_events(need("C05", "lattice"), 200, lambda e: e["ev"] == "Parse" and e["out"]["ok"] and any(c["cm"] == "@completion" for c in e["out"]["data"]))
    e = json.loads(json.dumps(ev[0]))
    for c in e["out"]["data"]:
        if c["cm"] == "@completion":
            c["v"][0] += 10000
            break
    r = run("Trace_C05", [e], "c05-bad2")
    return "C05 one completed value changed by 1 kWh", len(r["verdicts"]) == 1


@case
def c07_factor():
    ev = first_events(need("C07", "subsets"), 300, lambda e: e["ev"] == "Prepare" and e["out"]["ok"] and len(e["lines"]) > 2)
    e = json.loads(json.dumps(ev[0]))
    k = (e["lines"][0]["cr"], e["lines"][0]["src"], e["lines"][0]["dest"], e["lines"][0]["step"])
    for f in e["out"]["list"]:
        if (f["cr"], f["src"], f["dest"], f["step"]) == k:
            f["m"][1] += 1
    r = run("Trace_C07", ev[1:3] + [e], "c07-bad")
    return "C07 one prepared factor off by 0.001", len(r["verdicts"]) + len(r["drifts"]) >= 1 and (len(r["verdicts"]) == 1 or k in [("EAMBIENTE", "RED", "SUMINISTRO", "A")])


@case
def c16_panic():
    ev = first_events(need("C16", "lib"), 20)
    e = json.loads(json.dumps(ev[3]))
    e["stages"].append({"s": "strip", "o": "Panic", "msg": "inserted"})
    r = run("Trace_C16", ev[:3] + [e], "c16-bad")
    return "C16 one Panic outcome inserted", len(r["verdicts"]) == 1


@case
def c17_unclosed():
    ev = first_events(need("C17", "lattice"), 10, lambda e: e["out"]["ok"] and e.get("doc", {}).get("ok"))
    e = json.loads(json.dumps(ev[0]))
    for i in range(len(e["doc"]["xml"]) - 1, 0, -1):
        if e["doc"]["xml"][i][0] == "C" and e["doc"]["xml"][i][1] != "BalanceEPB":
            del e["doc"]["xml"][i]
            break
    r = run("Trace_C17", [e], "c17-bad")
    return "C17 one closing tag removed from a lexed XML document", len(r["verdicts"]) == 1


@case
def c19_exit():
    ev = first_events(need("C19", "configs"), 40, lambda e: e["obs"]["exit"] == 0)
    e = json.loads(json.dumps(ev[0]))
    e["obs"]["origen"]["area"]["origin"] = "metadatos" if e["obs"]["origen"]["area"]["origin"] != "metadatos" else "usuario"
    r = run("Trace_C19", ev[1:3] + [e], "c19-bad")
    return "C19 origin of the area echoed differently", len(r["verdicts"]) == 1


@case
def prog_signal():
    ev = first_events(need("C16", "program"), 30, lambda e: e["how"] == "0")
    e = json.loads(json.dumps(ev[2]))
    e["how"] = "signal:11"
    r = run("Trace_Prog16", ev[:2] + [e], "prog16-bad")
    return "C16 one run of the program state machine ends by a signal", len(r["verdicts"]) == 1 and not r["drifts"]


@case
def prog_result_despite_refusal():
    ev = first_events(need("C19", "program"), 400, lambda e: e["how"] == "65")
    ok = first_events(need("C19", "program"), 10, lambda e: e["how"] == "0")
    e = json.loads(json.dumps(ev[0]))
    e["written"] = e["written"] + ["json"]
    r = run("Trace_Prog19", ok[:2] + [e], "prog19-bad")
    return "C19 a refused run (65) that leaves a JSON result", len(r["verdicts"]) == 1


@case
def prog_other_code():
    ev = first_events(need("C16", "program"), 400, lambda e: e["how"] == "74")
    e = json.loads(json.dumps(ev[0]))
    e["how"] = "65"
    r = run("Trace_Prog16", [e], "prog16-drift")
    return "program state machine: another deliberate code than the specification's is reported as drift, not as a violation", len(r["verdicts"]) == 0 and len(r["drifts"]) == 1


@case
def c05_demand_line():
    ev = first_events(need("C05", "lattice"), 400, lambda e: e["ev"] == "Parse" and e["out"]["ok"] and len(e.get("input_needs", [])) > 1)
    e = json.loads(json.dumps(ev[0]))
    e["input_needs"][0]["v"][0] += 3
    r = run("Trace_C05", [e], "c05-need")
    return "C05 one declared DEMANDA value changed", len(r["verdicts"]) == 1


@case
def meta_store_set():
    ev = first_events(need("C18", "meta"), 600, lambda e: e["ev"] == "Meta")
    # a whole case (three operations) whose last operation is a set_meta; the recorded store gets one more entry
    k = next(i for i in range(2, len(ev)) if ev[i]["op"]["op"] == "set" and ev[i]["case"] == ev[i - 2]["case"] and ev[i]["i"] == 3)
    e = json.loads(json.dumps(ev[k]))
    e["comps"] = e["comps"] + [[e["op"]["k"], e["op"]["v"]]]
    r = run("Trace_Meta", ev[k - 2:k] + [e], "meta-bad")
    return "metadata store: set_meta that appends a second entry instead of updating the first", len(r["verdicts"]) == 1


@case
def meta_store_get():
    ev = first_events(need("C18", "meta"), 600, lambda e: e["ev"] == "Meta")
    k = next(i for i in range(2, len(ev)) if ev[i]["case"] == ev[i - 2]["case"] and ev[i]["i"] == 3 and len(ev[i]["facs"]) >= 1)
    e = json.loads(json.dumps(ev[k]))
    key = e["facs"][0][0]
    e["fget"][key]["get"] = e["fget"][key]["get"] + "x"
    r = run("Trace_Meta", ev[k - 2:k] + [e], "meta-get")
    return "metadata store: get_meta answering something else than the first entry of the key", len(r["verdicts"]) == 1


@case
def c19_location_not_recorded():
    ev = first_events(need("C19", "configs"), 4000, lambda e: e["obs"]["exit"] == 0 and e["cfg"]["lopt"] == "PENINSULA" and not e["cfg"]["ffile"])
    e = json.loads(json.dumps(ev[0]))
    e["obs"]["oc"]["CTE_LOCALIZACION"] = "CANARIAS"
    r = run("Trace_C19", ev[1:3] + [e], "c19-loc")
    return "C19 the emitted components state another location than the one given with -l", len(r["verdicts"]) == 1


def main():
    vlib.build(cli=True)
    failed = 0
    for fn in CASES:
        try:
            what, ok = fn()
        except Exception as ex:  # a selftest that cannot run is a failure
            what, ok = "%s raised %r" % (fn.__name__, ex), False
        log(("noticed     " if ok else "NOT NOTICED ") + what)
        failed += 0 if ok else 1
    log("selftest: %d corruption(s), %d not noticed" % (len(CASES), failed))
    return 0 if failed == 0 else 1
