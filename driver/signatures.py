"""Signature predicates of the known-findings file: each takes the *input case* of a verdict
(and the verdict) and says whether that input belongs to the described class.  A verdict is
suppressed only if its clause class equals the finding's class AND the signature holds."""


def comps_of(case):
    return (case.get("src") or {}).get("comps") or []


def never(case, verdict):
    return False


def _comps(case, ev):
    if ev and ev.get("comps"):
        return ev["comps"]
    return comps_of(case or {})


def _steps(comps):
    return len(comps[0]["v"]) if comps else 0


def _sum_at(comps, pred, t):
    return sum(c["v"][t] for c in comps if pred(c) and t < len(c["v"]))


def _is_el_epb_use(c):
    return ((c["kind"] == "USED" and c["cr"] == "ELECTRICIDAD") or c["kind"] == "AUX") and c["srv"] not in ("NEPB", "COGEN")


def pv_exported(case, verdict, ev):
    """on-site electricity production exceeds the EPB electricity use at some step (so it is exported)"""
    comps = _comps(case, ev)
    if verdict.get("tag", "").endswith("lm1") or (ev and ev.get("lm")):
        # with load matching part of the production is exported whenever there is production
        return any(c["kind"] == "PROD" and c["src"] == "EL_INSITU" and any(x > 0 for x in c["v"]) for c in comps)
    for t in range(_steps(comps)):
        pv = _sum_at(comps, lambda c: c["kind"] == "PROD" and c["src"] == "EL_INSITU", t)
        use = _sum_at(comps, _is_el_epb_use, t)
        if pv > use:
            return True
    return False


def cogen_exported(case, verdict, ev):
    """cogenerated electricity is exported at some step (production of PV + CHP exceeds the EPB use, or load matching)"""
    comps = _comps(case, ev)
    has = any(c["kind"] == "PROD" and c["src"] == "EL_COGEN" and any(x > 0 for x in c["v"]) for c in comps)
    if not has:
        return False
    if ev and ev.get("lm"):
        return True
    for t in range(_steps(comps)):
        pr = _sum_at(comps, lambda c: c["kind"] == "PROD" and c["src"] in ("EL_COGEN", "EL_INSITU"), t)
        chp = _sum_at(comps, lambda c: c["kind"] == "PROD" and c["src"] == "EL_COGEN", t)
        use = _sum_at(comps, _is_el_epb_use, t)
        if chp > 0 and pr > use:
            return True
    return False


def pv_or_cogen_exported(case, verdict, ev):
    return pv_exported(case, verdict, ev) or cogen_exported(case, verdict, ev)


NEARBY = ("BIOMASA", "BIOMASADENSIFICADA", "RED1", "RED2", "EAMBIENTE", "TERMOSOLAR")


def renewable_cogen(case, verdict, ev):
    """cogeneration whose fuel is a nearby (renewable) carrier"""
    comps = _comps(case, ev)
    return any(c["kind"] == "USED" and c["srv"] == "COGEN" and c["cr"] in NEARBY for c in comps)
