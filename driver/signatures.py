"""Signature predicates of the known-findings file: each takes the *input case* of a verdict
(and the verdict) and says whether that input belongs to the described class.  A verdict is
suppressed only if its clause class equals the finding's class AND the signature holds."""


def comps_of(case):
    return (case.get("src") or {}).get("comps") or []


def never(case, verdict):
    return False
