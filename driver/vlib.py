"""Core of the ./check driver: cargo / harness / TLC plumbing, sharded trace validation,
known-findings matching, evidence files.  No property is judged here."""
import concurrent.futures as cf
import glob
import hashlib
import json
import os
import re
import shutil
import subprocess
import sys
import time

ROOT = os.path.dirname(os.path.dirname(os.path.abspath(__file__)))
WORK = os.path.join(ROOT, "work")
SPEC = os.path.join(ROOT, "spec")
MC = os.path.join(ROOT, "mc")
TRACE = os.path.join(ROOT, "trace")
# the repository under test; VERIF_REPO lets a background run use a snapshot of it (the registered
# commands always use /repo itself)
REPO = os.environ.get("VERIF_REPO", "/repo")
HARNESS_BIN = os.path.join(WORK, "target", "debug", "run")
CLI_BIN = os.path.join(WORK, "cli-target", "debug", "cteepbd")
JAVA_BASE = "-DTLA-Library=%s -Xss1g" % SPEC
NCPU = os.cpu_count() or 4
TLA_CP = "/opt/veriftools/tla/tla2tools.jar:/opt/veriftools/tla/CommunityModules-deps.jar"


class ToolError(Exception):
    pass


def log(*a):
    print(*a, flush=True)


def sh(cmd, timeout=None, env=None, cwd=None, stdin=None, stdout=None):
    e = dict(os.environ)
    e.update({"CARGO_NET_OFFLINE": "true"})
    if env:
        e.update(env)
    return subprocess.run(cmd, cwd=cwd, env=e, timeout=timeout, stdin=stdin, stdout=stdout,
                          stderr=subprocess.STDOUT if stdout is not None else None)


# --------------------------------------------------------------------------- build
def build(cli=False):
    """(re)build the harness (path dependency on /repo with the hooks on) and optionally the CLI"""
    os.makedirs(WORK, exist_ok=True)
    t0 = time.time()
    lock_src = os.path.join(REPO, "Cargo.lock")
    lock_dst = os.path.join(ROOT, "harness", "Cargo.lock")
    if not os.path.exists(lock_dst) and os.path.exists(lock_src):
        shutil.copy(lock_src, lock_dst)
    hdir = os.path.join(ROOT, "harness")
    if REPO != "/repo":
        # same harness sources, path dependency redirected to the snapshot
        alt = os.path.join(WORK, "harness-alt")
        shutil.rmtree(alt, ignore_errors=True)
        shutil.copytree(hdir, alt, ignore=shutil.ignore_patterns("target"))
        ct = open(os.path.join(alt, "Cargo.toml")).read().replace('path = "/repo"', 'path = "%s"' % REPO)
        open(os.path.join(alt, "Cargo.toml"), "w").write(ct)
        open(os.path.join(alt, ".cargo", "config.toml"), "w").write('[net]\noffline = true\n[build]\ntarget-dir = "%s"\n' % os.path.join(WORK, "target"))
        hdir = alt
    r = subprocess.run(["cargo", "build", "--offline", "--quiet"], cwd=hdir,
                       env=dict(os.environ, CARGO_NET_OFFLINE="true"), capture_output=True, text=True)
    if r.returncode != 0:
        sys.stderr.write(r.stdout + r.stderr)
        raise ToolError("harness build failed")
    if cli:
        r = subprocess.run(["cargo", "build", "--offline", "--quiet", "--bin", "cteepbd",
                            "--manifest-path", os.path.join(REPO, "Cargo.toml"),
                            "--target-dir", os.path.join(WORK, "cli-target")],
                           env=dict(os.environ, CARGO_NET_OFFLINE="true"), capture_output=True, text=True)
        if r.returncode != 0:
            sys.stderr.write(r.stdout + r.stderr)
            raise ToolError("cli build failed")
    return time.time() - t0


# --------------------------------------------------------------------------- TLC
CASE_RE = re.compile(r'^<<"(CASE|VERDICT|DRIFT|NOTE)", "(.*)">>$')
STATS_RE = re.compile(r"^(\d[\d,]*) states generated, (\d[\d,]*) distinct states found")


def decode_line(line):
    m = CASE_RE.match(line.rstrip("\n"))
    if not m:
        return None, None
    try:
        return m.group(1), json.loads(json.loads('"' + m.group(2) + '"'))
    except Exception:
        return None, None


def spec_hash(*paths):
    h = hashlib.sha256()
    for p in sorted(glob.glob(os.path.join(SPEC, "*.tla"))) + list(paths):
        h.update(open(p, "rb").read())
    return h.hexdigest()[:16]


def run_mc(module, cfg, workers=None, timeout=1500, extra=None, simulate=None, cache_key=None):
    """run TLC on mc/<module>.tla with mc/<cfg>; returns dict(out=path, states, transitions, wall)
    The output (CASE lines) is cached by the hash of the specification files."""
    os.makedirs(os.path.join(WORK, "cases"), exist_ok=True)
    mpath = os.path.join(MC, module + ".tla")
    cpath = os.path.join(MC, cfg)
    key = spec_hash(mpath, cpath) + ("-" + cache_key if cache_key else "")
    out = os.path.join(WORK, "cases", "%s.%s.%s.out" % (module, cfg.replace(".cfg", ""), key))
    meta = out + ".json"
    if os.path.exists(out) and os.path.exists(meta):
        st = json.load(open(meta))
        st["cached"] = True
        return st
    md = os.path.join(WORK, "md", "%s-%d" % (module, os.getpid()))
    cmd = ["tlc", "-workers", str(workers or NCPU), "-metadir", md, "-cleanup", "-noGenerateSpecTE",
           "-config", cfg]
    if simulate:
        cmd += ["-simulate", simulate]
    if extra:
        cmd += extra
    cmd += [module + ".tla"]
    t0 = time.time()
    tmp = out + ".tmp"
    with open(tmp, "w") as f:
        try:
            r = sh(cmd, timeout=timeout, cwd=MC, stdout=f,
                   env={"JAVA_TOOL_OPTIONS": JAVA_BASE + " -Xmx12g"})
        except subprocess.TimeoutExpired:
            raise ToolError("TLC timeout on %s" % module)
    shutil.rmtree(md, ignore_errors=True)
    states = trans = 0
    ok = False
    err = []
    for line in open(tmp, errors="replace"):
        m = STATS_RE.match(line)
        if m:
            trans = int(m.group(1).replace(",", ""))
            states = int(m.group(2).replace(",", ""))
        if line.startswith("Model checking completed. No error has been found") or "Finished in" in line:
            ok = ok or line.startswith("Model checking completed")
        if line.startswith("Error:") or "is violated" in line:
            err.append(line.strip())
    st = dict(out=out, states=states, transitions=trans, wall=round(time.time() - t0, 1), ok=ok and not err,
              errors=err[:5], cached=False, module=module, cfg=cfg)
    os.replace(tmp, out)
    if st["ok"]:
        json.dump(st, open(meta, "w"))
        # outputs cached for older versions of this module / configuration are of no use any more
        prefix = "%s.%s." % (module, cfg.replace(".cfg", ""))
        for fn in os.listdir(os.path.join(WORK, "cases")):
            if fn.startswith(prefix) and not fn.startswith(os.path.basename(out)):
                try:
                    os.remove(os.path.join(WORK, "cases", fn))
                except OSError:
                    pass
    return st


def run_apalache(module, inv, timeout=600):
    """unbounded supplement: apalache-mc check --length=0 --inv=<inv> on apa/<module>.tla (initial values arbitrary)"""
    out = os.path.join(WORK, "apa", module)
    os.makedirs(out, exist_ok=True)
    t0 = time.time()
    try:
        r = subprocess.run(["apalache-mc", "check", "--length=0", "--inv=" + inv, "--out-dir=" + out, module + ".tla"],
                           cwd=os.path.join(ROOT, "apa"), capture_output=True, text=True, timeout=timeout)
    except subprocess.TimeoutExpired:
        raise ToolError("apalache timeout")
    ok = "The outcome is: NoError" in r.stdout
    shutil.rmtree(out, ignore_errors=True)
    return dict(module=module, invariant=inv, ok=ok, wall=round(time.time() - t0, 1),
                tool="apalache-mc check --length=0 (all natural numbers)")


def mc_cases(st):
    """CASE records printed by a model checking run"""
    for line in open(st["out"], errors="replace"):
        kind, rec = decode_line(line)
        if kind == "CASE":
            yield rec


DIED = []      # cases on which the library took the whole harness process down (filled by run_harness, read by the checks)


def _harness_part(mode, cases_path, trace_path, args, deadline):
    """runs the harness on one file of cases; if the process dies (a panic that escapes, an abort, a stack overflow,
    a signal) the case that did it is recorded in DIED, its partial events are dropped and the run goes on with the
    cases after it.  Returns None, or an error text for tool errors."""
    lines = open(cases_path).read().splitlines(True)
    open(trace_path, "w").close()
    deaths = 0
    while lines:
        part_c, part_t = cases_path + ".run", trace_path + ".run"
        with open(part_c, "w") as f:
            f.writelines(lines)
        try:
            with open(part_c) as fi:
                # (the library reports every metadata value it cannot read as a triple on stderr)
                rc = subprocess.run([HARNESS_BIN, mode, part_t] + (args or []), stdin=fi, stdout=subprocess.DEVNULL,
                                    stderr=subprocess.DEVNULL if mode == "triple" else None,
                                    timeout=max(1, deadline - time.time())).returncode
        except subprocess.TimeoutExpired:
            return "harness timeout"
        done = set()
        if os.path.exists(part_t + ".done"):
            done = {x.strip() for x in open(part_t + ".done") if x.strip()}
        keep = []
        if os.path.exists(part_t):
            for ln in open(part_t):
                try:
                    if rc == 0 or json.dumps(json.loads(ln).get("case")) in done:
                        keep.append(ln)
                except ValueError:
                    pass          # a line cut by the death of the process
        with open(trace_path, "a") as fo:
            fo.writelines(keep)
        for x in (part_c, part_t, part_t + ".done"):
            if os.path.exists(x):
                os.remove(x)
        if rc == 0:
            return None
        if rc == 2:
            return "harness failed with code 2"
        # which case was being handled
        k = 0
        while k < len(lines) and json.dumps(json.loads(lines[k]).get("case")) in done:
            k += 1
        if k >= len(lines):
            return "harness failed with code %d after its last case" % rc
        DIED.append(dict(case=json.loads(lines[k]).get("case"), how=("signal:%d" % -rc) if rc < 0 else ("exit:%d" % rc)))
        lines = lines[k + 1:]
        deaths += 1
        if deaths > 25:
            break         # enough: the remaining cases of this part are not run, the deaths are reported
    return None


def run_harness(mode, cases_path, trace_path, timeout=3000, args=None):
    """runs the harness on a file of cases (one per line; cases are independent of each other): large files are
    cut into contiguous shards handled by parallel processes, and the traces are concatenated in order"""
    deadline = time.time() + timeout
    with open(cases_path) as fi:
        n = sum(1 for _ in fi)
    k = max(1, min(NCPU, n // 400))
    if k == 1 or mode not in ("cases", "fault", "meta", "triple"):
        if mode in ("cases", "fault", "meta", "triple"):
            bad = _harness_part(mode, cases_path, trace_path, args, deadline)
            if bad:
                raise ToolError(bad)
            return
        with open(cases_path) as fi:
            try:
                r = subprocess.run([HARNESS_BIN, mode, trace_path] + (args or []), stdin=fi, stdout=subprocess.DEVNULL, timeout=timeout)
            except subprocess.TimeoutExpired:
                raise ToolError("harness timeout")
        if r.returncode != 0:
            raise ToolError("harness failed with code %d" % r.returncode)
        return
    per = (n + k - 1) // k
    parts = []
    with open(cases_path) as fi:
        for i in range(k):
            cp, tp = "%s.part%d" % (cases_path, i), "%s.part%d" % (trace_path, i)
            with open(cp, "w") as fo:
                for _ in range(per):
                    line = fi.readline()
                    if not line:
                        break
                    fo.write(line)
            parts.append((cp, tp))
    with cf.ThreadPoolExecutor(max_workers=k) as ex:
        results = list(ex.map(lambda pt: _harness_part(mode, pt[0], pt[1], args, deadline), parts))
    bad = next((r for r in results if r), None)
    if bad is None:
        with open(trace_path, "w") as fo:
            for cp, tp in parts:
                with open(tp) as fi:
                    shutil.copyfileobj(fi, fo)
    for cp, tp in parts:
        for x in (cp, tp):
            if os.path.exists(x):
                os.remove(x)
    if bad:
        raise ToolError(bad)


def _tlc_trace_once(module, trace_path, tag):
    md = os.path.join(WORK, "md", "tv-%s-%d-%s" % (module, os.getpid(), tag))
    # java is called directly (not through the tlc wrapper, which forces the parallel collector):
    # up to 16 single-worker JVMs run side by side, each with the serial collector
    cmd = ["java", "-XX:+UseSerialGC", "-Xmx3g", "-Xss1g", "-DTLA-Library=" + SPEC,
           "-Dtlc2.tool.queue.IStateQueue=StateDeque", "-cp", TLA_CP, "tlc2.TLC",
           "-workers", "1", "-metadir", md, "-cleanup", "-noGenerateSpecTE",
           "-config", module + ".cfg", module + ".tla"]
    env = {"TRACE": trace_path}
    e = dict(os.environ)
    e.update(env)
    try:
        r = subprocess.run(cmd, cwd=TRACE, env=e, capture_output=True, text=True, timeout=3000, errors="replace")
    except subprocess.TimeoutExpired:
        raise ToolError("TLC trace validation timeout (%s)" % module)
    shutil.rmtree(md, ignore_errors=True)
    return r.stdout


def validate_shard(module, lines, tag):
    """validates a list of trace lines; on a TLC abort (e.g. 32-bit overflow in the exact
    arithmetic) the offending event is set aside as unjudged and validation continues."""
    res = dict(events=0, verdicts=[], drifts=[], notes=[], unjudged=[], accepted=True)
    pos = 0
    skips = 0
    while pos < len(lines):
        path = os.path.join(WORK, "shards", "%s-%d-%s.ndjson" % (module, os.getpid(), tag))
        os.makedirs(os.path.dirname(path), exist_ok=True)
        with open(path, "w") as f:
            f.writelines(lines[pos:])
        out = _tlc_trace_once(module, path, tag)
        if "Parsing or semantic analysis failed" in out or "Could not find or load main class" in out or "java.lang.OutOfMemoryError" in out:
            # the specification itself does not load (or the JVM failed): a tool error, never a verdict
            raise ToolError("TLC could not run %s: %s" % (module, " ".join(l for l in out.splitlines() if "rror" in l)[:300]))
        accepted = None
        consumed = 0
        for line in out.splitlines():
            kind, rec = decode_line(line)
            if kind == "VERDICT":
                res["verdicts"].append(rec)
            elif kind == "DRIFT":
                res["drifts"].append(rec)
            elif kind == "NOTE":
                res["notes"].append(rec)
            m = re.match(r'^<<"TRACE-ACCEPTED", (\d+)>>', line)
            if m:
                accepted = int(m.group(1))
            m = re.match(r'^<<"TRACE-REJECTED", (\d+), (\d+)>>', line)
            if m:
                consumed = int(m.group(1))
                res["accepted"] = False
                res.setdefault("rejected_at", []).append(pos + consumed)
            m = STATS_RE.match(line)
            if m and accepted is None:
                consumed = max(consumed, int(m.group(1).replace(",", "")) - 1)
        os.remove(path)
        if accepted is not None:
            res["events"] += accepted
            pos = len(lines)
            break
        # aborted (overflow or evaluation error) or rejected: event number consumed+1 of this slice
        bad = pos + consumed
        res["events"] += consumed
        reason = [l for l in out.splitlines() if l.startswith("Error:")][:2]
        overflow = any("Overflow" in r_ for r_ in reason) or any("Overflow" in l_ for l_ in out.splitlines()[:60])
        if bad < len(lines):
            try:
                ev = json.loads(lines[bad])
            except Exception:
                ev = {}
            if overflow:
                # exact arithmetic outside 32 bits: the event cannot be recomputed, nothing is claimed about it
                res["unjudged"].append(dict(case=ev.get("case"), tag=ev.get("tag"), reason=reason))
            else:
                # the trace specification is total on every event the unchanged tree produces; an event on which
                # a property predicate cannot even be evaluated (missing field, wrong shape) does not satisfy it
                why = [l_.strip() for l_ in out.splitlines() if "Attempted" in l_ or "which is" in l_ or "not in the domain" in l_][:2]
                res["verdicts"].append(dict(prop=module.replace("Trace_", ""), case=ev.get("case"), tag=ev.get("tag"),
                                            clauses=["event_cannot_be_evaluated:" + " ".join(why)[:160]]))
        pos = bad + 1
        skips += 1
        if skips > 25:
            if overflow:
                raise ToolError("too many TLC overflows while validating %s: %s" % (module, reason))
            break   # bounded reporting: enough events of this kind were reported
    return res


def validate(module, trace_path, shards=None, group_key="case"):
    return _validate(module, trace_path, shards, group_key)


def _validate(module, trace_path, shards=None, group_key="case"):
    """sharded trace validation; events of one case stay in one shard"""
    lines = open(trace_path).readlines()
    if not lines:
        return dict(events=0, verdicts=[], drifts=[], notes=[], unjudged=[], accepted=True)
    shards = shards or min(NCPU, max(1, len(lines) // 40))
    # boundaries on case change
    case_re = re.compile(r'"%s":\s*("[^"]*"|-?\d+)' % group_key)
    bounds = [0]
    prev = None
    for i, l in enumerate(lines):
        m = case_re.search(l)
        c = m.group(1) if m else None
        if c != prev:
            if i:
                bounds.append(i)
            prev = c
    bounds.append(len(lines))
    ngroups = len(bounds) - 1
    per = max(1, (ngroups + shards - 1) // shards)
    chunks = []
    for s in range(0, ngroups, per):
        chunks.append(lines[bounds[s]:bounds[min(ngroups, s + per)]])
    total = dict(events=0, verdicts=[], drifts=[], notes=[], unjudged=[], accepted=True)
    with cf.ThreadPoolExecutor(max_workers=min(NCPU, len(chunks))) as ex:
        futs = [ex.submit(validate_shard, module, ch, str(i)) for i, ch in enumerate(chunks)]
        for fu in futs:
            r = fu.result()
            total["events"] += r["events"]
            for k in ("verdicts", "drifts", "notes", "unjudged"):
                total[k] += r[k]
            total["accepted"] = total["accepted"] and r["accepted"]
    return total


# --------------------------------------------------------------------------- findings / evidence
def load_findings():
    p = os.path.join(ROOT, "known_findings.json")
    if not os.path.exists(p):
        return []
    return json.load(open(p)).get("findings", [])


def write_evidence(pid, tier, seed, level, coverage, wall, violations, assumptions):
    os.makedirs(os.path.join(ROOT, "evidence"), exist_ok=True)
    ev = dict(property_id=pid, tier=tier, seed=seed, level=level, coverage=coverage,
              assumptions=assumptions, wall_s=round(wall, 1), violations=violations)
    with open(os.path.join(ROOT, "evidence", pid + ".json"), "w") as f:
        json.dump(ev, f, indent=1, ensure_ascii=False)


def write_replay(pid, n, payload):
    d = os.path.join(WORK, "replay", pid)
    os.makedirs(d, exist_ok=True)
    p = os.path.join(d, "%s-%03d.json" % (pid, n))
    json.dump(payload, open(p, "w"), indent=1, ensure_ascii=False)
    return p


def sany_all():
    bad = []
    for d in (SPEC, MC, TRACE):
        for p in sorted(glob.glob(os.path.join(d, "*.tla"))):
            r = subprocess.run(["tla-sany", os.path.basename(p)], cwd=d, capture_output=True, text=True,
                               env=dict(os.environ, JAVA_TOOL_OPTIONS="-DTLA-Library=%s" % SPEC))
            if "*** Errors" in r.stdout or "Fatal errors" in r.stdout or r.returncode != 0:
                bad.append(p)
                sys.stderr.write(r.stdout[-2000:])
    return bad


def main(argv):
    import props
    tier = os.environ.get("VERIF_TIER", "quick")
    seed = int(os.environ.get("VERIF_SEED", "1") or 1)
    replay = None
    pid = None
    i = 0
    while i < len(argv):
        a = argv[i]
        if a == "--setup":
            try:
                t = build(cli=True)
                bad = sany_all()
                if bad:
                    log("SANY errors in", bad)
                    return 2
                log("setup ok (build %.1fs)" % t)
                return 0
            except ToolError as e:
                log("TOOL-ERROR", e)
                return 2
        elif a == "--selftest":
            import selftest
            try:
                return selftest.main()
            except ToolError as e:
                log("TOOL-ERROR", e)
                return 2
        elif a == "--tier":
            tier = argv[i + 1]
            i += 1
        elif a == "--replay":
            replay = argv[i + 1]
            i += 1
        elif a == "--seed":
            seed = int(argv[i + 1])
            i += 1
        else:
            pid = a
        i += 1
    if pid is None or pid not in props.PROPS:
        log("usage: ./check --setup | ./check <property id> [--tier quick|thorough] [--replay file]")
        return 2
    try:
        return props.run_property(pid, tier, seed, replay)
    except ToolError as e:
        log("TOOL-ERROR property=%s %s" % (pid, e))
        return 2
