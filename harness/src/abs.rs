//! Abstract inputs (the vocabulary shared with the TLA+ specification) and the harness's
//! own writer from abstract inputs to the tool's text formats.  The library's `Display`
//! implementations are deliberately not used here.

use serde_json::{json, Value};

#[derive(Clone, Debug)]
pub struct AbsComp {
    pub kind: String, // USED PROD AUX OUT NEED
    pub id: i64,
    pub cr: String,
    pub srv: String,
    pub src: String,
    pub v: Vec<f64>,
    pub cm: String,
}

impl AbsComp {
    pub fn from_json(x: &Value) -> AbsComp {
        AbsComp {
            kind: x["kind"].as_str().unwrap_or("").to_string(),
            id: x["id"].as_i64().unwrap_or(0),
            cr: x["cr"].as_str().unwrap_or("-").to_string(),
            srv: x["srv"].as_str().unwrap_or("-").to_string(),
            src: x["src"].as_str().unwrap_or("-").to_string(),
            v: x["v"]
                .as_array()
                .map(|a| a.iter().map(|n| n.as_f64().unwrap_or(0.0)).collect())
                .unwrap_or_default(),
            cm: x["cm"].as_str().unwrap_or("").to_string(),
        }
    }
    /// values scaled by 10^q as integers
    pub fn to_json(&self, q: i32) -> Value {
        let k = 10f64.powi(q);
        json!({"kind": self.kind, "id": self.id, "cr": self.cr, "srv": self.srv, "src": self.src,
               "v": self.v.iter().map(|x| (x * k).round() as i64).collect::<Vec<_>>(), "cm": self.cm})
    }
}

pub fn fmt_num(x: f64) -> String {
    if x == x.trunc() && x.abs() < 1e15 {
        format!("{}", x as i64)
    } else {
        let s = format!("{:.6}", x);
        let s = s.trim_end_matches('0').trim_end_matches('.');
        s.to_string()
    }
}

/// one text line per abstract component
pub fn render_comp(c: &AbsComp) -> String {
    let vals = c.v.iter().map(|x| fmt_num(*x)).collect::<Vec<_>>().join(", ");
    // the comment class "@lowscop" stands for the tag the library looks for
    // ... and "@completion" / "@aux" for the comments the library itself gives to the components it generates (a file
    // written by the program and edited by its user declares lines that carry them)
    let (gen_c, gen_a) = crate::flat::generated_comments().clone();
    let text = if c.cm == "@lowscop" { "CTEEPBD_EXCLUYE_SCOP_ACS" } else if c.cm == "@completion" { gen_c.as_str() } else if c.cm == "@aux" { gen_a.as_str() } else { c.cm.as_str() };
    let cm = if text.is_empty() { String::new() } else { format!(" # {}", text) };
    match c.kind.as_str() {
        "USED" => format!("{}, CONSUMO, {}, {}, {}{}", c.id, c.srv, c.cr, vals, cm),
        "PROD" => format!("{}, PRODUCCION, {}, {}{}", c.id, c.src, vals, cm),
        "AUX" => format!("{}, AUX, {}{}", c.id, vals, cm),
        "OUT" => format!("{}, SALIDA, {}, {}{}", c.id, c.srv, vals, cm),
        "NEED" => format!("DEMANDA, {}, {}{}", c.srv, vals, cm),
        _ => String::new(),
    }
}

pub fn render_comps(comps: &[AbsComp], meta: &[(String, String)]) -> String {
    let mut lines: Vec<String> = meta.iter().map(|(k, v)| format!("#META {}: {}", k, v)).collect();
    lines.extend(comps.iter().map(render_comp));
    lines.join("\n")
}

/// factor line from thousandths
pub fn render_factor(f: &Value) -> String {
    let m = &f["m"];
    let g = |i: usize| -> String {
        let n = m[i].as_i64().unwrap_or(0);
        let sign = if n < 0 { "-" } else { "" };
        format!("{}{}.{:03}", sign, n.abs() / 1000, n.abs() % 1000)
    };
    format!(
        "{}, {}, {}, {}, {}, {}, {}",
        f["cr"].as_str().unwrap_or(""),
        f["src"].as_str().unwrap_or(""),
        f["dest"].as_str().unwrap_or(""),
        f["step"].as_str().unwrap_or(""),
        g(0),
        g(1),
        g(2)
    )
}

pub fn rat(x: &Value, default: f64) -> f64 {
    match x {
        Value::Array(a) if a.len() == 2 => {
            a[0].as_f64().unwrap_or(0.0) / a[1].as_f64().unwrap_or(1.0)
        }
        Value::Number(n) => n.as_f64().unwrap_or(default),
        _ => default,
    }
}

/// text of a token-level file description (spec/TextFormat.tla)
pub fn render_file(src: &Value) -> String {
    let mut out = String::new();
    if src["bom"].as_bool().unwrap_or(false) {
        out.push('\u{feff}');
    }
    let empty = vec![];
    let lines = src["lines"].as_array().unwrap_or(&empty);
    let mut texts: Vec<String> = vec![];
    for ln in lines {
        match ln["t"].as_str().unwrap_or("") {
            "blank" => texts.push(String::new()),
            "remark" => texts.push(format!("# {}", ln["note"].as_str().unwrap_or(""))),
            "header" => texts.push("vector, tipo, src_dst, valores".to_string()),
            "meta" => {
                let t = format!("#META {}: {}", ln["c"][0].as_str().unwrap_or(""), ln["c"][1].as_str().unwrap_or(""));
                texts.push(if ln["pad"].as_bool().unwrap_or(false) { format!("  \t{}  \t ", t) } else { t });
            }
            "comp" => {
                let c = AbsComp::from_json(&ln["c"]);
                let pad = ln["pad"].as_bool().unwrap_or(false);
                let omit = ln["omitId"].as_bool().unwrap_or(false);
                let mut toks: Vec<String> = vec![];
                if c.kind != "NEED" && !omit {
                    toks.push(format!("{}", c.id));
                }
                match c.kind.as_str() {
                    "USED" => {
                        toks.push("CONSUMO".into());
                        toks.push(c.srv.clone());
                        toks.push(c.cr.clone());
                    }
                    "PROD" => {
                        toks.push("PRODUCCION".into());
                        toks.push(c.src.clone());
                    }
                    "AUX" => toks.push("AUX".into()),
                    "OUT" => {
                        toks.push("SALIDA".into());
                        toks.push(c.srv.clone());
                    }
                    _ => {
                        toks.push("DEMANDA".into());
                        toks.push(c.srv.clone());
                    }
                }
                for v in &c.v {
                    toks.push(fmt_num(*v));
                }
                let sep = if pad { " \t,  " } else { "," };
                let mut t = toks.join(sep);
                let note = ln["note"].as_str().unwrap_or("");
                if !note.is_empty() {
                    t = format!("{} # {}", t, note);
                }
                if pad {
                    t = format!("  \t{}  \t ", t);
                }
                texts.push(t);
            }
            _ => {}
        }
    }
    out.push_str(&texts.join("\n"));
    out
}
