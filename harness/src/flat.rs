//! Projection of the library's data structures to the observation vocabulary of the
//! specification (spec/Flat.tla): dotted paths -> integers in the logging unit.
//! Structs are destructured exhaustively (no `..`) wherever their type can be named, so a
//! field added to the library is a compile error here rather than a silent gap.

use std::collections::BTreeMap;

use cteepbd::types::*;
use cteepbd::Components;

use crate::abs::AbsComp;

pub struct Flat {
    pub m: BTreeMap<String, i64>,
    pub nonfinite: Vec<String>,
    /// energies are divided by this before scaling (unit of a scaled run)
    pub unit: f64,
    /// prefixes of the per-step vectors (path without the step index)
    pub tkeys: Vec<String>,
    /// per-m2 values as a report prints them: the digits of format!("{:.2}") (hundredths), for values below 2e7
    pub cents: BTreeMap<String, i64>,
}

impl Flat {
    pub fn new() -> Flat {
        Flat { m: BTreeMap::new(), nonfinite: vec![], unit: 1.0, tkeys: vec![], cents: BTreeMap::new() }
    }
    pub fn put(&mut self, path: String, v: f32, p: i32) {
        if !v.is_finite() {
            self.nonfinite.push(path);
            return;
        }
        if path.starts_with("m2.") && self.unit == 1.0 && v.abs() < 2.0e7 {
            // the same rounding as the writers of the reports (formatting of the f32 with two decimals)
            if let Ok(c) = format!("{:.2}", v).replace('.', "").parse::<i64>() {
                self.cents.insert(path[3..].to_string(), c);
            }
        }
        let x = (v as f64) / self.unit * 10f64.powi(p);
        let r = x.round();
        // finite but outside the 32-bit logging range (e.g. a ratio over a near-zero total):
        // clamped, so that the trace specifications still see an out-of-range value
        let r = r.clamp(-2.0e9, 2.0e9);
        self.m.insert(path, r as i64);
    }
    pub fn vec(&mut self, pre: &str, v: &[f32], p: i32) {
        if !self.tkeys.iter().any(|k| k == pre) {
            self.tkeys.push(pre.to_string());
        }
        for (i, x) in v.iter().enumerate() {
            self.put(format!("{}.{}", pre, i + 1), *x, p);
        }
    }
    fn t3(&mut self, pre: &str, v: &RenNrenCo2, p: i32) {
        let RenNrenCo2 { ren, nren, co2 } = *v;
        self.put(format!("{}.ren", pre), ren, p);
        self.put(format!("{}.nren", pre), nren, p);
        self.put(format!("{}.co2", pre), co2, p);
    }
    // the map helpers accept any map type (HashMap today): replacing it by an ordered map in the
    // library is a neutral change and must not break the harness
    fn map_f<'a, K: std::fmt::Display + 'a, I: IntoIterator<Item = (&'a K, &'a f32)>>(&mut self, pre: &str, m: I, p: i32) {
        for (k, v) in m {
            self.put(format!("{}.{}", pre, k), *v, p);
        }
    }
    fn map_v<'a, K: std::fmt::Display + 'a, I: IntoIterator<Item = (&'a K, &'a Vec<f32>)>>(&mut self, pre: &str, m: I, p: i32) {
        for (k, v) in m {
            self.vec(&format!("{}.{}", pre, k), v, p);
        }
    }
    fn map_t<'a, K: std::fmt::Display + 'a, I: IntoIterator<Item = (&'a K, &'a RenNrenCo2)>>(&mut self, pre: &str, m: I, p: i32) {
        for (k, v) in m {
            self.t3(&format!("{}.{}", pre, k), v, p);
        }
    }
}

pub fn flat_carrier(f: &mut Flat, b: &BalanceCarrier, p: i32) {
    let BalanceCarrier { carrier, f_match, used, prod, exp, del, we } = b;
    let pre = format!("cr.{}", carrier);
    f.vec(&format!("{}.f_match", pre), f_match, 6);
    {
        let UsedEnergy { epus_t, epus_by_srv_t, epus_an, epus_by_srv_an, nepus_t, nepus_an, cgnus_t, cgnus_an } = used;
        let u = format!("{}.used", pre);
        f.vec(&format!("{}.epus_t", u), epus_t, p);
        f.map_v(&format!("{}.epus_by_srv_t", u), epus_by_srv_t, p);
        f.put(format!("{}.epus_an", u), *epus_an, p);
        f.map_f(&format!("{}.epus_by_srv_an", u), epus_by_srv_an, p);
        f.vec(&format!("{}.nepus_t", u), nepus_t, p);
        f.put(format!("{}.nepus_an", u), *nepus_an, p);
        f.vec(&format!("{}.cgnus_t", u), cgnus_t, p);
        f.put(format!("{}.cgnus_an", u), *cgnus_an, p);
    }
    {
        let ProducedEnergy { t, an, by_src_t, by_src_an, epus_t, epus_an, epus_by_src_t, epus_by_src_an, epus_by_srv_by_src_t, epus_by_srv_by_src_an } = prod;
        let u = format!("{}.prod", pre);
        f.vec(&format!("{}.t", u), t, p);
        f.put(format!("{}.an", u), *an, p);
        f.map_v(&format!("{}.by_src_t", u), by_src_t, p);
        f.map_f(&format!("{}.by_src_an", u), by_src_an, p);
        f.vec(&format!("{}.epus_t", u), epus_t, p);
        f.put(format!("{}.epus_an", u), *epus_an, p);
        f.map_v(&format!("{}.epus_by_src_t", u), epus_by_src_t, p);
        f.map_f(&format!("{}.epus_by_src_an", u), epus_by_src_an, p);
        for (j, m) in epus_by_srv_by_src_t {
            f.map_v(&format!("{}.epus_by_srv_by_src_t.{}", u, j), m, p);
        }
        for (j, m) in epus_by_srv_by_src_an {
            f.map_f(&format!("{}.epus_by_srv_by_src_an.{}", u, j), m, p);
        }
    }
    {
        let ExportedEnergy { t, an, grid_t, grid_an, nepus_t, nepus_an, by_src_t, by_src_an } = exp;
        let u = format!("{}.exp", pre);
        f.vec(&format!("{}.t", u), t, p);
        f.put(format!("{}.an", u), *an, p);
        f.vec(&format!("{}.grid_t", u), grid_t, p);
        f.put(format!("{}.grid_an", u), *grid_an, p);
        f.vec(&format!("{}.nepus_t", u), nepus_t, p);
        f.put(format!("{}.nepus_an", u), *nepus_an, p);
        f.map_v(&format!("{}.by_src_t", u), by_src_t, p);
        f.map_f(&format!("{}.by_src_an", u), by_src_an, p);
    }
    {
        let DeliveredEnergy { an, grid_t, grid_an, onst_t, onst_an, cgn_t, cgn_an } = del;
        let u = format!("{}.del", pre);
        f.put(format!("{}.an", u), *an, p);
        f.vec(&format!("{}.grid_t", u), grid_t, p);
        f.put(format!("{}.grid_an", u), *grid_an, p);
        f.vec(&format!("{}.onst_t", u), onst_t, p);
        f.put(format!("{}.onst_an", u), *onst_an, p);
        f.vec(&format!("{}.cgn_t", u), cgn_t, p);
        f.put(format!("{}.cgn_an", u), *cgn_an, p);
    }
    {
        let WeightedEnergy { b, b_by_srv, a, a_by_srv, del, del_grid, del_onst, del_cgn, exp, exp_a, exp_nepus_a, exp_grid_a, exp_nepus_ab, exp_grid_ab, exp_ab } = we;
        let u = format!("{}.we", pre);
        f.t3(&format!("{}.b", u), b, p);
        f.map_t(&format!("{}.b_by_srv", u), b_by_srv, p);
        f.t3(&format!("{}.a", u), a, p);
        f.map_t(&format!("{}.a_by_srv", u), a_by_srv, p);
        f.t3(&format!("{}.del", u), del, p);
        f.t3(&format!("{}.del_grid", u), del_grid, p);
        f.t3(&format!("{}.del_onst", u), del_onst, p);
        f.t3(&format!("{}.del_cgn", u), del_cgn, p);
        f.t3(&format!("{}.exp", u), exp, p);
        f.t3(&format!("{}.exp_a", u), exp_a, p);
        f.t3(&format!("{}.exp_nepus_a", u), exp_nepus_a, p);
        f.t3(&format!("{}.exp_grid_a", u), exp_grid_a, p);
        f.t3(&format!("{}.exp_nepus_ab", u), exp_nepus_ab, p);
        f.t3(&format!("{}.exp_grid_ab", u), exp_grid_ab, p);
        f.t3(&format!("{}.exp_ab", u), exp_ab, p);
    }
}

pub fn flat_balance(f: &mut Flat, pre: &str, b: &Balance, p: i32) {
    let Balance { needs, used, prod, del, exp, we } = b;
    // BalNeeds and BalWeighted are not re-exported by the library, so they cannot be
    // destructured by name; their fields are read one by one.
    if let Some(v) = needs.ACS {
        f.put(format!("{}.needs.ACS", pre), v, p)
    }
    if let Some(v) = needs.CAL {
        f.put(format!("{}.needs.CAL", pre), v, p)
    }
    if let Some(v) = needs.REF {
        f.put(format!("{}.needs.REF", pre), v, p)
    }
    {
        let BalUsed { nepus, epus, cgnus, epus_by_srv, epus_by_cr, epus_by_cr_by_srv } = used;
        let u = format!("{}.used", pre);
        f.put(format!("{}.epus", u), *epus, p);
        f.put(format!("{}.nepus", u), *nepus, p);
        f.put(format!("{}.cgnus", u), *cgnus, p);
        f.map_f(&format!("{}.epus_by_srv", u), epus_by_srv, p);
        f.map_f(&format!("{}.epus_by_cr", u), epus_by_cr, p);
        for (s, m) in epus_by_cr_by_srv {
            f.map_f(&format!("{}.epus_by_cr_by_srv.{}", u, s), m, p);
        }
    }
    {
        let BalProd { an, by_cr, by_src, epus_by_src, epus_by_srv_by_src } = prod;
        let u = format!("{}.prod", pre);
        f.put(format!("{}.an", u), *an, p);
        f.map_f(&format!("{}.by_cr", u), by_cr, p);
        f.map_f(&format!("{}.by_src", u), by_src, p);
        f.map_f(&format!("{}.epus_by_src", u), epus_by_src, p);
        for (j, m) in epus_by_srv_by_src {
            f.map_f(&format!("{}.epus_by_srv_by_src.{}", u, j), m, p);
        }
    }
    {
        let BalDel { an, onst, grid, grid_by_cr } = del;
        let u = format!("{}.del", pre);
        f.put(format!("{}.an", u), *an, p);
        f.put(format!("{}.onst", u), *onst, p);
        f.put(format!("{}.grid", u), *grid, p);
        f.map_f(&format!("{}.grid_by_cr", u), grid_by_cr, p);
    }
    {
        let BalExp { an, grid, nepus } = exp;
        let u = format!("{}.exp", pre);
        f.put(format!("{}.an", u), *an, p);
        f.put(format!("{}.grid", u), *grid, p);
        f.put(format!("{}.nepus", u), *nepus, p);
    }
    {
        let u = format!("{}.we", pre);
        f.t3(&format!("{}.a", u), &we.a, p);
        f.map_t(&format!("{}.a_by_srv", u), &we.a_by_srv, p);
        f.t3(&format!("{}.b", u), &we.b, p);
        f.map_t(&format!("{}.b_by_srv", u), &we.b_by_srv, p);
        f.t3(&format!("{}.del", u), &we.del, p);
        f.t3(&format!("{}.exp_a", u), &we.exp_a, p);
        f.t3(&format!("{}.exp", u), &we.exp, p);
    }
}

pub fn flat_ep_unit(ep: &EnergyPerformance, p: i32, pm: i32, unit: f64) -> Flat {
    let EnergyPerformance { components: _, wfactors: _, k_exp, arearef, balance_cr, balance, balance_m2, rer, rer_nrb, rer_onst, misc: _ } = ep;
    let mut f = Flat::new();
    f.unit = unit;
    for b in balance_cr.values() {
        flat_carrier(&mut f, b, p);
    }
    flat_balance(&mut f, "bal", balance, p);
    flat_balance(&mut f, "m2", balance_m2, pm);
    // ratios are not energies: never divided by the unit
    f.unit = 1.0;
    for b in balance_cr.values() {
        f.vec(&format!("cr.{}.f_match", b.carrier), &b.f_match, 6);
    }
    f.put("rer".into(), *rer, 6);
    f.put("rer_nrb".into(), *rer_nrb, 6);
    f.put("rer_onst".into(), *rer_onst, 6);
    f.put("k_exp".into(), *k_exp, 6);
    f.put("arearef".into(), *arearef, 3);
    f
}

/// The wording of the comments the library generates is never compared (neutral change):
/// the two generated comments are learnt from the library itself, once, and logged as the
/// classes "@completion" / "@aux".
pub fn generated_comments() -> &'static (String, String) {
    use std::sync::OnceLock;
    static G: OnceLock<(String, String)> = OnceLock::new();
    G.get_or_init(|| {
        let completion = "0, CONSUMO, CAL, EAMBIENTE, 1.0"
            .parse::<Components>()
            .ok()
            .and_then(|c| c.data.iter().filter(|e| e.is_generated()).map(|e| e.comment().to_string()).next())
            .unwrap_or_else(|| "@none1".into());
        let aux = "1, CONSUMO, CAL, GASNATURAL, 1.0\n1, CONSUMO, ACS, GASNATURAL, 1.0\n1, SALIDA, CAL, 1.0\n1, SALIDA, ACS, 1.0\n1, AUX, 1.0"
            .parse::<Components>()
            .ok()
            .and_then(|c| c.data.iter().filter(|e| e.is_aux()).map(|e| e.comment().to_string()).next())
            .unwrap_or_else(|| "@none2".into());
        (completion, aux)
    })
}

pub fn is_generated_comment(cm: &str) -> bool {
    let (c, a) = generated_comments();
    !cm.is_empty() && (cm == c || cm == a)
}

pub fn comment_class(cm: &str) -> String {
    let (c, a) = generated_comments();
    if !cm.is_empty() && cm == c {
        "@completion".into()
    } else if !cm.is_empty() && cm == a {
        "@aux".into()
    } else if cm.contains(LOW_SCOP_TAG) {
        "@lowscop".into()
    } else {
        cm.to_string()
    }
}

/// tag the library reads in the comment of an ambient-heat consumption (heat pump with a low seasonal performance)
pub const LOW_SCOP_TAG: &str = "CTEEPBD_EXCLUYE_SCOP_ACS";

/// abstract view of a parsed (normalised) component set
pub fn abs_of_components(c: &Components) -> Vec<AbsComp> {
    let mut out = vec![];
    for e in &c.data {
        let v = |x: &[f32]| x.iter().map(|y| *y as f64).collect::<Vec<f64>>();
        out.push(match e {
            Energy::Used(EUsed { id, carrier, service, values, comment }) => AbsComp {
                kind: "USED".into(), id: *id as i64, cr: carrier.to_string(), srv: service.to_string(),
                src: "-".into(), v: v(values), cm: comment_class(comment),
            },
            Energy::Prod(EProd { id, source, values, comment }) => AbsComp {
                kind: "PROD".into(), id: *id as i64, cr: "-".into(), srv: "-".into(),
                src: source.to_string(), v: v(values), cm: comment_class(comment),
            },
            Energy::Aux(EAux { id, service, values, comment }) => AbsComp {
                kind: "AUX".into(), id: *id as i64, cr: "-".into(), srv: service.to_string(),
                src: "-".into(), v: v(values), cm: comment_class(comment),
            },
            Energy::Out(EOut { id, service, values, comment }) => AbsComp {
                kind: "OUT".into(), id: *id as i64, cr: "-".into(), srv: service.to_string(),
                src: "-".into(), v: v(values), cm: comment_class(comment),
            },
        });
    }
    let BuildingNeeds { ACS, CAL, REF } = &c.needs;
    for (s, n) in [("ACS", ACS), ("CAL", CAL), ("REF", REF)] {
        if let Some(vals) = n {
            out.push(AbsComp {
                kind: "NEED".into(), id: 0, cr: "-".into(), srv: s.into(), src: "-".into(),
                v: vals.iter().map(|y| *y as f64).collect(), cm: String::new(),
            });
        }
    }
    out
}
