//! Lexers that turn the three renderings of a result into token streams for the trace
//! specifications (spec/Output.tla).  They only tokenise: no property is judged here.

use serde_json::{json, Value};

/// a printed decimal number as (integer in units of 10^-d, d); None if not a plain decimal
pub fn printed(s: &str) -> Option<(i64, usize)> {
    let t = s.trim();
    if t.is_empty() {
        return None;
    }
    let (neg, body) = match t.strip_prefix('-') {
        Some(b) => (true, b),
        None => (false, t),
    };
    let mut parts = body.splitn(2, '.');
    let ip = parts.next()?;
    let fp = parts.next().unwrap_or("");
    if ip.is_empty() || !ip.chars().all(|c| c.is_ascii_digit()) || !fp.chars().all(|c| c.is_ascii_digit()) {
        return None;
    }
    if ip.len() + fp.len() > 9 {
        return None;
    }
    let v: i64 = format!("{}{}", ip, fp).parse().ok()?;
    Some((if neg { -v } else { v }, fp.len()))
}

/// XML subset used by the tool: elements without attributes, text, comments, five entities.
/// Tokens: ["O", name] ["C", name] ["T", decoded text] ["K", comment] ["B", what] (bad construct)
pub fn lex_xml(s: &str) -> Vec<Value> {
    let b: Vec<char> = s.chars().collect();
    let mut out = vec![];
    let mut i = 0;
    let mut text = String::new();
    let flush = |text: &mut String, out: &mut Vec<Value>| {
        if !text.trim().is_empty() {
            match printed(text.trim()) {
                Some((p, d)) => out.push(json!(["T", text.trim(), p, d])),
                None => out.push(json!(["T", text.trim()])),
            }
        }
        text.clear();
    };
    let is_name = |n: &str| !n.is_empty() && n.chars().all(|c| c.is_alphanumeric() || c == '_') && !n.chars().next().unwrap().is_ascii_digit();
    while i < b.len() {
        let c = b[i];
        if c == '<' {
            let rest: String = b[i..b.len().min(i + 4)].iter().collect();
            let rest9: String = b[i..b.len().min(i + 9)].iter().collect();
            if rest9 == "<![CDATA[" {
                // a CDATA section is character data up to the first "]]>"
                let mut j = i + 9;
                let mut found = None;
                while j + 2 < b.len() {
                    if b[j] == ']' && b[j + 1] == ']' && b[j + 2] == '>' {
                        found = Some(j);
                        break;
                    }
                    j += 1;
                }
                match found {
                    Some(j) => {
                        text.extend(b[i + 9..j].iter());
                        i = j + 3;
                    }
                    None => {
                        flush(&mut text, &mut out);
                        out.push(json!(["B", "unterminated CDATA section"]));
                        i = b.len();
                    }
                }
                continue;
            }
            if rest == "<!--" {
                flush(&mut text, &mut out);
                let mut j = i + 4;
                let mut found = None;
                while j + 2 < b.len() + 0 {
                    if b[j] == '-' && b[j + 1] == '-' && b[j + 2] == '>' {
                        found = Some(j);
                        break;
                    }
                    j += 1;
                }
                match found {
                    Some(j) => {
                        out.push(json!(["K", b[i + 4..j].iter().collect::<String>().trim()]));
                        i = j + 3;
                    }
                    None => {
                        out.push(json!(["B", "unterminated comment"]));
                        i = b.len();
                    }
                }
                continue;
            }
            // tag
            let mut j = i + 1;
            while j < b.len() && b[j] != '>' && b[j] != '<' {
                j += 1;
            }
            if j >= b.len() || b[j] != '>' {
                flush(&mut text, &mut out);
                out.push(json!(["B", "stray <"]));
                i += 1;
                continue;
            }
            let inner: String = b[i + 1..j].iter().collect();
            flush(&mut text, &mut out);
            if let Some(n) = inner.strip_prefix('/') {
                if is_name(n) {
                    out.push(json!(["C", n]));
                } else {
                    out.push(json!(["B", "bad closing tag"]));
                }
            } else if is_name(&inner) {
                out.push(json!(["O", inner]));
            } else {
                out.push(json!(["B", "bad tag"]));
            }
            i = j + 1;
        } else if c == '&' {
            let mut j = i + 1;
            while j < b.len() && j < i + 8 && b[j] != ';' && b[j] != '&' && b[j] != '<' {
                j += 1;
            }
            let ent: String = if j < b.len() && b[j] == ';' { b[i + 1..j].iter().collect() } else { String::new() };
            match ent.as_str() {
                "amp" => text.push('&'),
                "lt" => text.push('<'),
                "gt" => text.push('>'),
                "apos" => text.push('\''),
                "quot" => text.push('"'),
                _ => {
                    flush(&mut text, &mut out);
                    out.push(json!(["B", "stray &"]));
                    i += 1;
                    continue;
                }
            }
            i = j + 1;
        } else if (c < ' ' && c != '\t' && c != '\n' && c != '\r') || c == '\u{fffe}' || c == '\u{ffff}' {
            // not a character of XML 1.0 (production [2] Char)
            flush(&mut text, &mut out);
            out.push(json!(["B", "character outside XML"]));
            i += 1;
        } else {
            text.push(c);
            i += 1;
        }
    }
    flush(&mut text, &mut out);
    out
}

/// The plain report as entries [section, key, field, P, d]: P is the printed number in units of 10^-d.
/// Sections and keys are positional (the wording of the report is never compared):
///   "h<n>"          scalar line number k<i> under the n-th "** " heading
///   "h<n>.t<m>"     entry KEY of the m-th table ("* ...:" sub-heading) of that heading
///   "h<n>.k<i>"     dash entry d<j> that follows scalar line k<i> (k0: directly under the heading; key = KEY)
pub fn lex_plain(s: &str) -> Vec<Value> {
    let mut out = vec![];
    let (mut h, mut k, mut t, mut d) = (0, 0, 0, 0);
    let mut in_table = false;
    fn fields(out: &mut Vec<Value>, sec: &str, key: &str, rest: &str) {
        let cleaned = rest.replace('=', " ").replace(':', " ");
        let mut field = String::new();
        for tk in cleaned.split(|c: char| c == ',' || c.is_whitespace()).filter(|x| !x.is_empty()) {
            if let Some((p, dd)) = printed(tk) {
                out.push(json!([sec, key, field.clone(), p, dd]));
                field.clear();
            } else if tk == "-" {
                out.push(json!([sec, key, "absent", 0, 0]));
            } else if !tk.starts_with('[') && !tk.ends_with(']') {
                field = tk.chars().filter(|c| c.is_ascii_alphanumeric() || *c == '_').collect();
            }
        }
    }
    for raw in s.lines() {
        let line = raw.trim();
        if line.is_empty() {
            continue;
        }
        if line.starts_with("** ") {
            h += 1;
            k = 0;
            t = 0;
            d = 0;
            in_table = false;
            continue;
        }
        if let Some(item) = line.strip_prefix("- ") {
            let mut it = item.splitn(2, ':');
            let key: String = it.next().unwrap_or("").trim().to_string();
            let rest = it.next().unwrap_or("");
            if in_table {
                fields(&mut out, &format!("h{}.t{}", h, t), &key, rest);
            } else if k == 0 {
                fields(&mut out, &format!("h{}.k0", h), &key, rest);
            } else {
                d += 1;
                fields(&mut out, &format!("h{}.k{}", h, k), &format!("d{}", d), rest);
            }
            continue;
        }
        let body = line.strip_prefix("* ").or_else(|| line.strip_prefix("+ ")).unwrap_or(line);
        if line.starts_with("* ") && body.trim_end().ends_with(':') && !body.chars().any(|c| c.is_ascii_digit()) {
            t += 1;
            in_table = true;
            continue;
        }
        // a scalar line: everything after the label
        k += 1;
        d = 0;
        in_table = false;
        // label = up to the first " = " or ":" (whichever comes first); "Suministrada 12.00:" has its number inside the label
        let cut = match (body.find(" = "), body.find(':')) {
            (Some(a), Some(b)) => a.min(b),
            (Some(a), None) => a,
            (None, Some(b)) => b,
            (None, None) => body.len(),
        };
        let label = &body[..cut];
        let rest = if cut < body.len() { &body[cut + 1..] } else { "" };
        let inside: Vec<&str> = label.split_whitespace().filter(|x| printed(x).is_some()).collect();
        if rest.trim().is_empty() && !inside.is_empty() {
            fields(&mut out, &format!("h{}", h), &format!("k{}", k), inside[0]);
        } else {
            // "C_ep [kWh/m2.an]: ren = 1.0, nren = 2.0" : keep the part after the first ':' if the label had a unit
            let rest2 = if label.contains('[') && !rest.contains(',') && body.contains(':') && body.find(':').unwrap() > cut {
                &body[body.find(':').unwrap() + 1..]
            } else {
                rest
            };
            fields(&mut out, &format!("h{}", h), &format!("k{}", k), rest2);
        }
    }
    out
}

/// Projection of the lexed XML document to its records: for every element that states a component, a demand or a
/// factor, the texts of its children - numbers as (integer in units of 10^-d, d), lists of numbers as lists.
/// [el, {child: text | [P, d] | [[P...], d]}]
pub fn xml_records(toks: &[Value]) -> Vec<Value> {
    const RECS: [&str; 6] = ["Consumo", "Produccion", "EAux", "Salida", "Demanda", "Factor"];
    let mut out = vec![];
    let mut i = 0;
    while i < toks.len() {
        let t = &toks[i];
        if t[0] == "O" && RECS.contains(&t[1].as_str().unwrap_or("")) {
            let el = t[1].as_str().unwrap_or("").to_string();
            let mut fields = serde_json::Map::new();
            let mut j = i + 1;
            let mut child: Option<String> = None;
            while j < toks.len() && !(toks[j][0] == "C" && toks[j][1] == el.as_str()) {
                let u = &toks[j];
                if u[0] == "O" {
                    child = u[1].as_str().map(|x| x.to_string());
                } else if u[0] == "C" {
                    child = None;
                } else if u[0] == "T" {
                    if let Some(c) = &child {
                        let text = u[1].as_str().unwrap_or("");
                        let v = if let Some((p, d)) = printed(text) {
                            json!({"n": p, "d": d})
                        } else {
                            let parts: Vec<Option<(i64, usize)>> = text.split(',').map(printed).collect();
                            if parts.len() > 1 && parts.iter().all(|x| x.is_some()) && parts.iter().all(|x| x.unwrap().1 == parts[0].unwrap().1) {
                                json!({"l": parts.iter().map(|x| x.unwrap().0).collect::<Vec<i64>>(), "d": parts[0].unwrap().1})
                            } else {
                                json!({"s": text})
                            }
                        };
                        fields.insert(c.clone(), v);
                    }
                }
                j += 1;
            }
            out.push(json!({"el": el, "f": fields}));
            i = j;
        }
        i += 1;
    }
    out
}

/// a text cut into the atoms of the text alphabet of spec/Output.tla (placeholders for the characters TLC cannot
/// print); a character outside the alphabet is an atom of its own
pub fn text_atoms(t: &str) -> Vec<String> {
    let mut out = vec![];
    let mut rest = t;
    while !rest.is_empty() {
        if let Some(r) = rest.strip_prefix("&amp;") {
            out.push("&amp;".to_string());
            rest = r;
        } else if let Some(r) = rest.strip_prefix("]]>") {
            out.push("]]>".to_string());
            rest = r;
        } else {
            let c = rest.chars().next().unwrap();
            out.push(match c {
                'ñ' => "<NT>".to_string(),
                '€' => "<EU>".to_string(),
                '\u{1}' => "<C1>".to_string(),
                '\u{b}' => "<VT>".to_string(),
                c => c.to_string(),
            });
            rest = &rest[c.len_utf8()..];
        }
    }
    out
}
