//! Conformance harness: drives the real cteepbd library with cases chosen by TLC (S->I),
//! by the repository's files or by its own seeded generator (I->S) and records one ndjson
//! trace event per specification action.  It contains no oracle: every judgement is made
//! by TLC on the recorded trace (see DESIGN.md 2.3).

mod abs;
mod flat;
mod lex;
mod meta;
mod triple;

use std::collections::BTreeMap;
use std::io::{BufRead, Write};
use std::panic::{catch_unwind, AssertUnwindSafe};

use serde_json::{json, Value};

use cteepbd::types::*;
use cteepbd::{cte, energy_performance, Components, Factors, UserWF};

use abs::*;

fn err_kind(e: &cteepbd::error::EpbdError) -> &'static str {
    use cteepbd::error::EpbdError::*;
    match e {
        ParseError(_) => "ParseError",
        WrongInput(_) => "WrongInput",
        MissingFactor(_) => "MissingFactor",
    }
}

fn panic_msg(e: Box<dyn std::any::Any + Send>) -> String {
    if let Some(s) = e.downcast_ref::<&str>() {
        s.to_string()
    } else if let Some(s) = e.downcast_ref::<String>() {
        s.clone()
    } else {
        "panic".into()
    }
}

/// outcome of a guarded library call
enum Outcome<T> {
    Ok(T),
    Err(&'static str, String),
    Panic(String),
}

fn guarded<T, F: FnOnce() -> Result<T, cteepbd::error::EpbdError>>(f: F) -> Outcome<T> {
    match catch_unwind(AssertUnwindSafe(f)) {
        Ok(Ok(v)) => Outcome::Ok(v),
        // the text of an error is produced by the library too (Display for EpbdError): a panic there is data as well
        Ok(Err(e)) => match catch_unwind(AssertUnwindSafe(|| e.to_string())) {
            Ok(msg) => Outcome::Err(err_kind(&e), msg),
            Err(p) => Outcome::Panic(format!("while formatting the error: {}", panic_msg(p))),
        },
        Err(p) => Outcome::Panic(panic_msg(p)),
    }
}

fn fail(stage: &str, kind: &str, msg: &str) -> Value {
    json!({"ok": false, "stage": stage, "err": kind, "msg": msg.chars().take(200).collect::<String>()})
}

fn triple(x: &Value) -> Option<RenNrenCo2> {
    x.as_array().map(|a| {
        RenNrenCo2::new(
            (a[0].as_f64().unwrap_or(0.0) / 1000.0) as f32,
            (a[1].as_f64().unwrap_or(0.0) / 1000.0) as f32,
            (a[2].as_f64().unwrap_or(0.0) / 1000.0) as f32,
        )
    })
}

/// builds the factor set of a case: Outcome + the text used (if any)
fn build_factors(fac: &Value) -> Outcome<Factors> {
    let user = UserWF { red1: triple(&fac["red1"]), red2: triple(&fac["red2"]) };
    let mode = fac["mode"].as_str().unwrap_or("loc");
    match mode {
        "loc" => {
            let loc = fac["loc"].as_str().unwrap_or("PENINSULA").to_string();
            guarded(|| cte::wfactors_from_loc(&loc, &cte::CTE_LOCWF_RITE2014, user, cte::CTE_USERWF))
        }
        "str" | "raw" => {
            let text = match fac["text"].as_str() {
                Some(t) => t.to_string(),
                None => {
                    let cm = fac["comment"].as_str().map(|c| format!(" # {}", c)).unwrap_or_default();
                    fac["lines"]
                        .as_array()
                        .map(|a| {
                            // "layout": the same factors in an unusual but valid layout - a header line, metadata, remark and
                            // blank lines between the factors, padded fields, further columns after the seventh
                            let fancy = fac["layout"].as_bool().unwrap_or(false);
                            let mut ls: Vec<String> = vec![];
                            if fancy {
                                ls.push("vector, fuente, uso, step, ren, nren, co2".to_string());
                                ls.push("#META CTE_FUENTE: usuario".to_string());
                            }
                            for (i, f) in a.iter().enumerate() {
                                let line = render_factor(f);
                                if fancy {
                                    let padded = line.split(", ").collect::<Vec<_>>().join(" \t,  ");
                                    ls.push(format!("  {}, 99, extra{}  ", padded, cm));
                                    if i % 2 == 0 {
                                        ls.push("# nota".to_string());
                                        ls.push(String::new());
                                    }
                                } else {
                                    ls.push(format!("{}{}", line, cm));
                                }
                            }
                            ls.join("\n")
                        })
                        .unwrap_or_default()
                }
            };
            if mode == "str" {
                guarded(|| cte::wfactors_from_str(&text, user, cte::CTE_USERWF))
            } else {
                guarded(|| text.parse::<Factors>())
            }
        }
        "file" => {
            let text = std::fs::read_to_string(fac["path"].as_str().unwrap_or("")).unwrap_or_default();
            guarded(|| cte::wfactors_from_str(&text, user, cte::CTE_USERWF))
        }
        _ => Outcome::Err("Harness", format!("unknown factor mode {}", mode)),
    }
}

fn milli(x: f32) -> (i64, bool) {
    let y = (x as f64) * 1000.0;
    let r = y.round();
    (r as i64, (y - r).abs() < 1e-3)
}

fn factors_json(f: &Factors) -> (Value, bool, f64) {
    let mut exact = true;
    let mut maxf: f64 = 1.0;
    let list: Vec<Value> = f
        .wdata
        .iter()
        .map(|x| {
            let Factor { carrier, source, dest, step, ren, nren, co2, comment: _ } = x;
            let (a, ea) = milli(*ren);
            let (b, eb) = milli(*nren);
            let (c, ec) = milli(*co2);
            exact = exact && ea && eb && ec;
            for v in [*ren, *nren, *co2] {
                if v.is_finite() {
                    maxf = maxf.max(v.abs() as f64)
                }
            }
            json!({"cr": carrier.to_string(), "src": source.to_string(), "dest": dest.to_string(),
                   "step": step.to_string(), "m": [a, b, c]})
        })
        .collect();
    (Value::Array(list), exact, maxf)
}

fn exponent(s: f64) -> i32 {
    // largest p with s * 10^p <= 1e6, clamped
    let mut p = 6;
    while p > -6 && s * 10f64.powi(p) > 1.0e6 {
        p -= 1;
    }
    p
}

fn apply_run(base: &Components, run: &Value) -> Components {
    let mut c = base.clone();
    let each = |c: &mut Components, f: &dyn Fn(&mut Vec<f32>)| {
        for e in c.data.iter_mut() {
            match e {
                Energy::Used(x) => f(&mut x.values),
                Energy::Prod(x) => f(&mut x.values),
                Energy::Aux(x) => f(&mut x.values),
                Energy::Out(x) => f(&mut x.values),
            }
        }
        for n in [&mut c.needs.ACS, &mut c.needs.CAL, &mut c.needs.REF] {
            if let Some(v) = n {
                f(v)
            }
        }
    };
    // removal of consumption the DHW indicator must not depend on: all non-EPB use, or the
    // non-electric use of the other (non-DHW) EPB services
    match run.get("drop").and_then(|x| x.as_str()) {
        Some("nepb") => c.data.retain(|e| !(e.is_used() && e.is_nepb_use())),
        Some("other-nonelectric") => c.data.retain(|e| {
            !(e.is_used() && e.is_epb_use() && !e.has_service(Service::ACS) && !e.has_carrier(Carrier::ELECTRICIDAD)
                && !e.has_carrier(Carrier::EAMBIENTE) && !e.has_carrier(Carrier::TERMOSOLAR))
        }),
        _ => {}
    }
    // "scale": energies times c, results logged in units of c; "mul": energies times c, logged as they are
    if let Some(sc) = run.get("scale").or(run.get("mul")) {
        let k = rat(sc, 1.0) as f32;
        each(&mut c, &|v| v.iter_mut().for_each(|x| *x *= k));
    }
    if let Some(pm) = run.get("perm").and_then(|x| x.as_array()) {
        // new[t] = old[perm[t]] (1-based)
        let idx: Vec<usize> = pm.iter().map(|x| x.as_u64().unwrap_or(1) as usize - 1).collect();
        each(&mut c, &|v| {
            if v.len() == idx.len() {
                let old = v.clone();
                for (t, i) in idx.iter().enumerate() {
                    v[t] = old[*i];
                }
            }
        });
    }
    if let Some(m) = run.get("sub").and_then(|x| x.as_u64()) {
        let m = m as usize;
        each(&mut c, &|v| {
            let old = v.clone();
            v.clear();
            for x in old {
                for _ in 0..m {
                    v.push(x / m as f32);
                }
            }
        });
    }
    if let Some(d) = run.get("addpv").and_then(|x| x.as_array()) {
        let values: Vec<f32> = d.iter().map(|x| x.as_f64().unwrap_or(0.0) as f32).collect();
        // an increment of another length than the building's time layout is not a valid transform
        if c.data.first().map(|e| e.num_steps()) == Some(values.len()) {
            if run.get("via").and_then(|x| x.as_str()) == Some("text") {
                // the way a user does it: one more PRODUCCION line in the components file, with the id of the
                // photovoltaic system the building already has (0 without one), and the file read again
                let id = c.data.iter().find_map(|e| match e {
                    Energy::Prod(p) if p.source == ProdSource::EL_INSITU => Some(p.id),
                    _ => None,
                }).unwrap_or(0);
                let line = format!("{}, PRODUCCION, EL_INSITU, {}", id, values.iter().map(|x| format!("{:.2}", x)).collect::<Vec<_>>().join(", "));
                let text = format!("{}\n{}\n", c, line);
                if let Ok(Ok(c2)) = catch_unwind(AssertUnwindSafe(|| text.parse::<Components>())) {
                    c = c2;
                }
            } else {
                c.data.push(Energy::Prod(EProd {
                    id: 0,
                    source: ProdSource::EL_INSITU,
                    values,
                    comment: "extra PV".into(),
                }));
            }
        }
    }
    // the list of components in the opposite order (energy_performance takes any list; its result does not
    // depend on the order of the list)
    if run.get("rev").and_then(|x| x.as_bool()) == Some(true) {
        c.data.reverse();
    }
    c
}

/// abstract view of a hook snapshot (serde form of Vec<Energy>)
fn abs_from_hook(data: &Value) -> Vec<AbsComp> {
    let mut out = vec![];
    for e in data.as_array().unwrap_or(&vec![]) {
        let (kind, x) = if let Some(x) = e.get("Used") {
            ("USED", x)
        } else if let Some(x) = e.get("Prod") {
            ("PROD", x)
        } else if let Some(x) = e.get("Aux") {
            ("AUX", x)
        } else if let Some(x) = e.get("Out") {
            ("OUT", x)
        } else {
            continue;
        };
        out.push(AbsComp {
            kind: kind.into(),
            id: x["id"].as_i64().unwrap_or(0),
            cr: x["carrier"].as_str().unwrap_or("-").to_string(),
            srv: x["service"].as_str().unwrap_or("-").to_string(),
            src: x["source"].as_str().unwrap_or("-").to_string(),
            v: x["values"].as_array().map(|a| a.iter().map(|n| n.as_f64().unwrap_or(f64::NAN)).collect()).unwrap_or_default(),
            cm: flat::comment_class(x["comment"].as_str().unwrap_or("")),
        });
    }
    out
}

fn comps_json(cs: &[AbsComp], q: i32) -> Value {
    Value::Array(cs.iter().filter(|c| c.kind != "NEED").map(|c| c.to_json(q)).collect())
}

/// Parse event: the declared input, every step of the normalisation as recorded by the hooks
/// (state before each visited id), the parsed result and the result of normalising it again.
fn parse_event(case: &Value, text: &str, parsed: &Outcome<Components>, events: &[Value], q: i32) -> Value {
    // declared components: the abstract input of the case or, for inputs given as text, the state at
    // the entry of normalize() (the first hook fires before anything is modified)
    let declared: Vec<AbsComp> = match case["src"]["comps"].as_array() {
        Some(a) => a.iter().map(AbsComp::from_json).filter(|c| c.kind != "NEED").collect(),
        None => events.first().map(|e| abs_from_hook(&e["data"])).unwrap_or_default(),
    };
    // declared demand lines, in file order: the NEED components of the abstract input or, for inputs given
    // as text, the DEMANDA lines tokenised here (tag, service, values; nothing is added up)
    let declared_needs: Vec<AbsComp> = match case["src"]["comps"].as_array() {
        Some(a) => a.iter().map(AbsComp::from_json).filter(|c| c.kind == "NEED").collect(),
        None => text
            .lines()
            .filter_map(|ln| {
                let body = ln.trim_start_matches('\u{feff}').splitn(2, '#').next().unwrap_or("");
                let toks: Vec<&str> = body.split(',').map(str::trim).collect();
                if toks.len() < 3 || toks[0] != "DEMANDA" {
                    return None;
                }
                let v: Option<Vec<f64>> = toks[2..].iter().map(|t| t.parse::<f64>().ok()).collect();
                v.map(|v| AbsComp { kind: "NEED".into(), id: 0, cr: "-".into(), srv: toks[1].into(), src: "-".into(), v, cm: String::new() })
            })
            .collect(),
    };
    // cases of the free-text family: the comments are judged as atoms (cm_atoms), not as strings
    let text_family = case.get("atoms").is_some();
    let declared: Vec<AbsComp> = declared.into_iter().map(|mut c| { if text_family { c.cm = String::new(); } c }).collect();
    let steps: Vec<Value> = events
        .iter()
        .map(|e| {
            json!({"ev": e["ev"], "carrier": e.get("carrier").cloned().unwrap_or(json!("-")),
                   "id": e.get("id").cloned().unwrap_or(json!(0)),
                   "data": comps_json(&abs_from_hook(&e["data"]).into_iter().map(|mut x| { if text_family && !x.cm.starts_with('@') { x.cm = String::new(); } x }).collect::<Vec<_>>(), q)})
        })
        .collect();
    let mut ev = json!({"ev": "Parse", "case": case["case"], "tag": "parse", "q": q, "atoms": case.get("atoms").cloned().unwrap_or(json!("-")),
                        "N": declared.first().map(|c| c.v.len()).unwrap_or(0),
                        "input": Value::Array(declared.iter().map(|c| {
                            // the parser loads auxiliaries with the service NEPB
                            let mut c = c.clone();
                            if c.kind == "AUX" { c.srv = "NEPB".into(); }
                            c.to_json(q)
                        }).collect()),
                        "input_needs": Value::Array(declared_needs.iter().map(|c| c.to_json(q)).collect()),
                        "steps": steps, "textlen": text.len()});
    ev["out"] = match parsed {
        Outcome::Ok(c) => {
            let again = guarded(|| c.clone().normalize());
            let re = match again {
                Outcome::Ok(c2) => json!({"ok": true, "data": comps_json(&flat::abs_of_components(&c2), q)}),
                Outcome::Err(k, m) => fail("renormalize", k, &m),
                Outcome::Panic(m) => fail("renormalize", "Panic", &m),
            };
            let all = flat::abs_of_components(c);
            let needs: Vec<Value> = all.iter().filter(|c| c.kind == "NEED").map(|c| c.to_json(q)).collect();
            let blank = |v: Vec<AbsComp>| -> Vec<AbsComp> { v.into_iter().map(|mut x| { if text_family && !x.cm.starts_with('@') { x.cm = String::new(); } x }).collect() };
            let all = blank(all);
            let mut o = json!({"ok": true, "data": comps_json(&all, q), "needs": needs, "renorm": re});
            // history Parse ; AddAux ; Normalize: one more auxiliary component (1 kWh per step, not yet assigned to a
            // service, as the parser would load it) is declared for the first system that has auxiliaries, and the
            // set is normalised again
            if let Some(id) = c.data.iter().find_map(|e| match e { Energy::Aux(a) => Some(a.id), _ => None }) {
                let n = c.num_steps();
                let mut c2 = c.clone();
                c2.data.push(Energy::Aux(EAux { id, service: Service::NEPB, values: vec![1.0; n], comment: String::new() }));
                o["readd"] = match guarded(|| c2.normalize()) {
                    Outcome::Ok(c3) => json!({"ok": true, "id": id, "add": vec![10i64.pow(q.max(0) as u32); n],
                                              "data": comps_json(&blank(flat::abs_of_components(&c3)), q)}),
                    Outcome::Err(k, m) => { let mut f = fail("readd", k, &m); f["id"] = json!(id); f }
                    Outcome::Panic(m) => { let mut f = fail("readd", "Panic", &m); f["id"] = json!(id); f }
                };
            }
            if text_family {
                if let Outcome::Ok(c2) = guarded(|| c.clone().normalize()) {
                    o["renorm"] = json!({"ok": true, "data": comps_json(&blank(flat::abs_of_components(&c2)), q)});
                }
                // free text of the case: the comments and metadata values as they were read, cut into the atoms
                // of the text alphabet (spec/Output.tla TextAtoms) so that TLC can compare them with what was declared
                o["cm_atoms"] = Value::Array(c.data.iter().filter(|e| !flat::is_generated_comment(e.comment()))
                    .map(|e| json!(lex::text_atoms(e.comment()))).collect());
                o["meta_atoms"] = Value::Array(c.meta.iter().map(|m| json!([m.key, lex::text_atoms(&m.value)])).collect());
            }
            o
        }
        Outcome::Err(k, m) => fail("parse", k, m),
        Outcome::Panic(m) => fail("parse", "Panic", m),
    };
    ev
}

/// fields of a printed line: ["i", n] integer, ["n", P, d] decimal number, ["s", text]
fn line_fields(line: &str) -> Value {
    let mut it = line.splitn(2, '#');
    let body = it.next().unwrap_or("");
    let comment = it.next().map(|c| c.trim().to_string());
    let fields: Vec<Value> = body
        .split(',')
        .map(|f| f.trim())
        .map(|f| {
            if let Ok(n) = f.parse::<i64>() {
                json!(["i", n])
            } else if let Some((p, d)) = lex::printed(f) {
                json!(["n", p, d])
            } else {
                json!(["s", f])
            }
        })
        .collect();
    json!({"f": fields, "cm": comment.map(|c| flat::comment_class(&c)).unwrap_or_default()})
}

/// RoundTrip event: components and factors written with the library's Display and read back
fn roundtrip_event(case: &Value, c: &Components, f: &Factors) -> (Value, Option<(Components, Factors)>) {
    let q = 4;
    let metaj = |m: &Vec<Meta>| Value::Array(m.iter().map(|x| json!([x.key, x.value])).collect());
    let mut ev = json!({"ev": "RoundTrip", "case": case["case"], "tag": "roundtrip", "q": q});
    let text = match catch_unwind(AssertUnwindSafe(|| c.to_string())) {
        Ok(t) => t,
        Err(_) => {
            ev["out"] = fail("display", "Panic", "");
            return (ev, None);
        }
    };
    let lines: Vec<Value> = text.lines().filter(|l| !l.trim().is_empty() && !l.trim().starts_with('#')).map(line_fields).collect();
    let orig = flat::abs_of_components(c);
    ev["comps"] = json!({"orig": Value::Array(orig.iter().map(|x| x.to_json(q)).collect()), "lines": lines, "meta": metaj(&c.meta)});
    let c2 = guarded(|| text.parse::<Components>());
    let mut c2ok = None;
    ev["comps"]["re"] = match c2 {
        Outcome::Ok(c2) => {
            let a = flat::abs_of_components(&c2);
            let j = json!({"ok": true, "data": Value::Array(a.iter().map(|x| x.to_json(q)).collect()), "meta": metaj(&c2.meta)});
            c2ok = Some(c2);
            j
        }
        Outcome::Err(k, m) => fail("reparse", k, &m),
        Outcome::Panic(m) => fail("reparse", "Panic", &m),
    };
    let ftext = f.to_string();
    let (fj, _, _) = factors_json(f);
    let fcm = |f: &Factors| Value::Array(f.wdata.iter().map(|x| json!(x.comment)).collect());
    ev["fac"] = json!({"orig": fj, "meta": metaj(&f.wmeta), "cm": fcm(f)});
    let f2 = guarded(|| ftext.parse::<Factors>());
    let mut f2ok = None;
    ev["fac"]["re"] = match f2 {
        Outcome::Ok(f2) => {
            let j = json!({"ok": true, "list": factors_json(&f2).0, "meta": metaj(&f2.wmeta), "cm": fcm(&f2)});
            f2ok = Some(f2);
            j
        }
        Outcome::Err(k, m) => fail("reparse-factors", k, &m),
        Outcome::Panic(m) => fail("reparse-factors", "Panic", &m),
    };
    ev["out"] = json!({"ok": true});
    let re = match (c2ok, f2ok) {
        (Some(a), Some(b)) => Some((a, b)),
        _ => None,
    };
    (ev, re)
}

/// an input that fails before any evaluation still yields one event per run of the history,
/// so that the histories keep their shape in the trace
fn fail_all(case: &Value, out: &mut dyn Write, o: Value) {
    let default_runs = vec![json!({"tag": "base"})];
    for run in case["runs"].as_array().unwrap_or(&default_runs) {
        let mut ev = json!({"ev": "Eval", "case": case["case"], "tag": run["tag"].as_str().unwrap_or("base"), "run": run});
        ev["out"] = o.clone();
        writeln!(out, "{}", ev).ok();
    }
}

/// Prepare event: the factor file as given (lines, user RED1/RED2), the prepared list or the error,
/// and the result of preparing the prepared list again.
fn prepare_event(case: &Value, out: &mut dyn Write) {
    let fac = &case["fac"];
    // the file as given: abstract lines of the case, or (files / locations) the unprepared list
    let given = match fac["mode"].as_str().unwrap_or("loc") {
        "file" => std::fs::read_to_string(fac["path"].as_str().unwrap_or(""))
            .ok()
            .and_then(|t| t.parse::<Factors>().ok())
            .map(|f| factors_json(&f).0)
            .unwrap_or(json!([])),
        "loc" => cte::CTE_LOCWF_RITE2014
            .get(fac["loc"].as_str().unwrap_or(""))
            .map(|f| factors_json(f).0)
            .unwrap_or(json!([])),
        _ => fac.get("lines").cloned().unwrap_or(json!([])),
    };
    let mut ev = json!({"ev": "Prepare", "case": case["case"], "tag": "prepare",
                        "lines": given,
                        "red1": fac.get("red1").cloned().unwrap_or(json!([])),
                        "red2": fac.get("red2").cloned().unwrap_or(json!([]))});
    ev["out"] = match build_factors(fac) {
        Outcome::Ok(f) => {
            let (list, exact, _) = factors_json(&f);
            let again = match guarded(|| f.clone().normalize(&cte::CTE_USERWF)) {
                Outcome::Ok(f2) => json!({"ok": true, "list": factors_json(&f2).0}),
                Outcome::Err(k, m) => fail("prepare-again", k, &m),
                Outcome::Panic(m) => fail("prepare-again", "Panic", &m),
            };
            // Factors::to_nearby with the regulatory nearby list (conformance only, no property)
            let nearby = match catch_unwind(AssertUnwindSafe(|| f.to_nearby(&Carrier::NRBY))) {
                Ok(n) => json!({"ok": true, "list": factors_json(&n).0,
                                "perimeter": n.wmeta.iter().any(|m| m.key == "CTE_PERIMETRO" && m.value == "NEARBY")}),
                Err(_) => json!({"ok": false}),
            };
            json!({"ok": true, "list": list, "exact": exact, "again": again, "nearby": nearby})
        }
        Outcome::Err(k, m) => fail("prepare", k, &m),
        Outcome::Panic(m) => fail("prepare", "Panic", &m),
    };
    writeln!(out, "{}", ev).ok();
}

/// a case with several sources ("srcs"): each is evaluated with the same configuration and logged
/// with the exponents of the first one, so that the events of the group are directly comparable
fn run_case(case: &Value, out: &mut dyn Write) {
    if let Some(srcs) = case.get("srcs").and_then(|x| x.as_array()) {
        let mut forced: Option<(i32, i32, f64)> = None;
        for (i, src) in srcs.iter().enumerate() {
            let mut sub = case.clone();
            sub.as_object_mut().unwrap().remove("srcs");
            sub["src"] = src.clone();
            let tag = src.get("tag").and_then(|x| x.as_str()).map(|x| x.to_string()).unwrap_or(format!("src{}", i));
            sub["runs"] = json!([{"tag": tag, "reps": src.get("evalreps").cloned().unwrap_or(json!(1))}]);
            let r = run_case1(&sub, out, forced);
            if forced.is_none() {
                forced = r;
            }
        }
    } else {
        run_case1(case, out, None);
    }
}

fn run_case1(case: &Value, out: &mut dyn Write, forced: Option<(i32, i32, f64)>) -> Option<(i32, i32, f64)> {
    if case.get("prepare_log").and_then(|x| x.as_bool()).unwrap_or(false) {
        prepare_event(case, out);
        if case.get("prepare_only").and_then(|x| x.as_bool()).unwrap_or(false) {
            return None;
        }
    }
    let id = case["case"].clone();
    let base_ev = |tag: &str| json!({"ev": "Eval", "case": id, "tag": tag});
    // ---- components
    let text = if case["src"].get("lines").is_some() {
        render_file(&case["src"])
    } else if let Some(comps) = case["src"]["comps"].as_array() {
        let cs: Vec<AbsComp> = comps.iter().map(AbsComp::from_json).collect();
        let meta: Vec<(String, String)> = case["meta"]
            .as_array()
            .map(|a| a.iter().map(|m| (m[0].as_str().unwrap_or("").to_string(), m[1].as_str().unwrap_or("").to_string())).collect())
            .unwrap_or_default();
        render_comps(&cs, &meta)
    } else if let Some(p) = case["src"]["file"].as_str() {
        std::fs::read_to_string(p).unwrap_or_default()
    } else {
        case["src"]["text"].as_str().unwrap_or("").to_string()
    };
    // every parse iterates the system ids in a fresh hash order: repeating it samples schedules
    let reps = case.get("reps").and_then(|x| x.as_u64()).unwrap_or(1).max(1);
    let plog = case.get("parse_log").and_then(|x| x.as_bool()).unwrap_or(false);
    let q_parse = case.get("parse_q").and_then(|x| x.as_i64()).unwrap_or(4) as i32;
    let mut last = None;
    for rep in 0..reps {
        cteepbd::verif::start();
        let parsed = guarded(|| text.parse::<Components>());
        let parse_events = cteepbd::verif::take();
        if plog {
            let mut pe = parse_event(case, &text, &parsed, &parse_events, q_parse);
            pe["tag"] = json!(format!("parse{}", rep));
            writeln!(out, "{}", pe).ok();
        }
        last = Some((parsed, parse_events));
    }
    let (parsed, parse_events) = last.unwrap();
    let ids_sched: Vec<Value> = parse_events
        .iter()
        .filter(|e| e["ev"] != "Sort")
        .map(|e| json!([e["ev"], e.get("carrier").cloned().unwrap_or(json!("-")), e["id"]]))
        .collect();
    if case.get("parse_only").and_then(|x| x.as_bool()).unwrap_or(false) {
        return None;
    }
    let base = match parsed {
        Outcome::Ok(c) => c,
        Outcome::Err(k, m) => {
            fail_all(case, out, fail("parse", k, &m));
            return None;
        }
        Outcome::Panic(m) => {
            fail_all(case, out, fail("parse", "Panic", &m));
            return None;
        }
    };
    let fac0 = match build_factors(&case["fac"]) {
        Outcome::Ok(f) => f,
        Outcome::Err(k, m) => {
            fail_all(case, out, fail("factors", k, &m));
            return None;
        }
        Outcome::Panic(m) => {
            fail_all(case, out, fail("factors", "Panic", &m));
            return None;
        }
    };
    // ---- save / reload through the tool's own text format (C18)
    let mut reloaded: Option<(Components, Factors)> = None;
    if case.get("roundtrip").and_then(|x| x.as_bool()).unwrap_or(false) {
        let (ev, re) = roundtrip_event(case, &base, &fac0);
        writeln!(out, "{}", ev).ok();
        reloaded = re;
    }
    let default_runs = vec![json!({"tag": "base"})];
    let runs = case["runs"].as_array().unwrap_or(&default_runs);
    // ---- first pass: inputs of every run and the common logging exponent of the case
    struct Prep {
        run: Value,
        comps: Components,
        fac: Factors,
        kexp_v: Value,
        area_v: Value,
        lm: bool,
        s: f64,
        unit: f64,
        strip_panic: Option<String>,
    }
    let mut preps: Vec<Prep> = vec![];
    for run in runs {
        let kexp_v = run.get("kexp").unwrap_or(&case["kexp"]).clone();
        let area_v = run.get("area").unwrap_or(&case["area"]).clone();
        let lm = run.get("lm").and_then(|x| x.as_bool()).unwrap_or(case["lm"].as_bool().unwrap_or(false));
        let is_reload = run.get("reload").and_then(|x| x.as_bool()).unwrap_or(false);
        if is_reload && reloaded.is_none() {
            continue;
        }
        // "pre": the scaling is made on the DECLARED input (the abstract components of the case are written with every
        // value times c and read again), so that the normalisation - completion, sharing of the auxiliaries - sees
        // the scaled building; without it the parsed, normalised set is scaled
        let pre = run.get("pre").and_then(|x| x.as_bool()).unwrap_or(false) && run.get("scale").is_some() && case["src"]["comps"].is_array();
        let comps = if is_reload {
            reloaded.as_ref().unwrap().0.clone()
        } else if pre {
            let k = rat(&run["scale"], 1.0);
            let cs: Vec<AbsComp> = case["src"]["comps"].as_array().unwrap().iter().map(AbsComp::from_json)
                .map(|mut c| { for x in c.v.iter_mut() { *x *= k; } c }).collect();
            match catch_unwind(AssertUnwindSafe(|| render_comps(&cs, &[]).parse::<Components>())) {
                Ok(Ok(c)) => c,
                _ => apply_run(&base, run),
            }
        } else {
            apply_run(&base, run)
        };
        if run.get("scale").is_some() {
            // the properties quantify over values that are zero or >= 0.01 kWh: a scaling that takes a
            // non-zero value below that is not a valid transform of this input (no event)
            let too_small = comps.data.iter().any(|e| e.values().iter().any(|x| *x != 0.0 && x.abs() < 0.01));
            let too_small0 = base.data.iter().any(|e| e.values().iter().any(|x| *x != 0.0 && x.abs() < 0.01));
            if too_small || too_small0 {
                continue;
            }
        }
        let mut fac = if is_reload { reloaded.as_ref().unwrap().1.clone() } else { fac0.clone() };
        let mut strip_panic = None;
        if run.get("strip").and_then(|x| x.as_bool()).unwrap_or(false) {
            match catch_unwind(AssertUnwindSafe(|| fac.clone().strip(&comps))) {
                Ok(f) => fac = f,
                Err(p) => strip_panic = Some(panic_msg(p)),
            }
        }
        // results of a scaled run are logged in units of the scale factor
        let unit = run.get("scale").map(|x| rat(x, 1.0)).unwrap_or(1.0);
        let maxf = fac.wdata.iter().fold(1.0f64, |m, f| {
            [f.ren, f.nren, f.co2].iter().filter(|v| v.is_finite()).fold(m, |m, v| m.max(v.abs() as f64))
        });
        let sum_in: f64 = comps
            .data
            .iter()
            .filter(|e| !e.is_out())
            .map(|e| e.values().iter().map(|x| x.abs() as f64).sum::<f64>())
            .sum();
        // the declared demands are reported too (balance.needs): they count for the magnitude of the case
        let sum_needs: f64 = [&comps.needs.ACS, &comps.needs.CAL, &comps.needs.REF]
            .iter()
            .filter_map(|n| n.as_ref())
            .map(|v| v.iter().map(|x| x.abs() as f64).sum::<f64>())
            .sum();
        let s = ((sum_in * maxf).max(sum_needs) / unit).max(1.0);
        preps.push(Prep { run: run.clone(), comps, fac, kexp_v, area_v, lm, s, unit, strip_panic });
    }
    let mut s_case = preps.iter().fold(1.0f64, |m, p| m.max(p.s));
    let mut p = exponent(s_case);
    let mut pm_forced = None;
    if let Some((fp, fpm, fs)) = forced {
        p = fp;
        pm_forced = Some(fpm);
        s_case = fs;
    }
    let mut used_pm = 0;
    for pr in preps {
        let Prep { run, comps, fac, kexp_v, area_v, lm, s: _, unit, strip_panic } = pr;
        let tag = run["tag"].as_str().unwrap_or("base");
        let kexp = rat(&kexp_v, 0.0) as f32;
        let area = rat(&area_v, 1.0) as f32;
        let mut ev = base_ev(tag);
        ev["run"] = run.clone();
        ev["kexp"] = kexp_v;
        ev["area"] = area_v;
        ev["lm"] = json!(lm);
        if let Some(m) = strip_panic {
            ev["out"] = fail("strip", "Panic", &m);
            writeln!(out, "{}", ev).ok();
            continue;
        }
        // ---- echo of the actual inputs of energy_performance
        let ac = flat::abs_of_components(&comps);
        let all_int = ac.iter().all(|c| c.v.iter().all(|x| *x == x.trunc()));
        let q = if all_int { 0 } else { 2 };
        let exact_c = ac.iter().all(|c| {
            c.v.iter().all(|x| {
                let y = x * 10f64.powi(q);
                (y - y.round()).abs() < 1e-3 && x.is_finite()
            })
        });
        let (fj, exact_f, _maxf) = factors_json(&fac);
        let s = s_case;
        let pm = pm_forced.unwrap_or(exponent(s / (area as f64).max(1e-9)));
        used_pm = pm;
        ev["N"] = json!(comps.data.first().map(|e| e.num_steps()).unwrap_or(0));
        ev["q"] = json!(q);
        ev["exact"] = json!(exact_c && exact_f);
        ev["comps"] = Value::Array(ac.iter().map(|c| c.to_json(q)).collect());
        // the demand lines as DECLARED by the case (abstract input, base run only: the transforms of a run do not apply
        // to them): the demand evaluated must be their step-wise sum per service
        if let (Some(cs), true) = (case["src"]["comps"].as_array(), run.get("scale").is_none() && run.get("sub").is_none() && run.get("perm").is_none() && run.get("mul").is_none()) {
            ev["decl_needs"] = Value::Array(cs.iter().map(AbsComp::from_json).filter(|c| c.kind == "NEED").map(|c| c.to_json(q)).collect());
        }
        ev["fac"] = fj;
        ev["S"] = json!(s.ceil() as i64);
        ev["p"] = json!(p);
        ev["pm"] = json!(pm);
        ev["mag"] = json!((s * 10f64.powi(p)).ceil() as i64);
        ev["magm"] = json!((s / (area as f64).max(1e-9) * 10f64.powi(pm)).ceil() as i64);
        ev["idsched"] = Value::Array(ids_sched.clone());
        // ---- the call (a run may ask for repeated evaluations: each iterates the carriers in a fresh hash order)
        let evalreps = run.get("reps").and_then(|x| x.as_u64()).unwrap_or(1).max(1);
        for rep in 0..evalreps {
        if evalreps > 1 {
            ev["tag"] = json!(format!("{}#{}", tag, rep));
            ev["rep"] = json!(rep);
        }
        cteepbd::verif::start();
        let res = guarded(|| energy_performance(&comps, &fac, kexp, area, lm));
        let evs = cteepbd::verif::take();
        ev["carriers"] = Value::Array(evs.iter().filter(|e| e["ev"] == "Carrier").map(|e| e["carrier"].clone()).collect());
        let mut finds: BTreeMap<String, bool> = BTreeMap::new();
        for e in evs.iter().filter(|e| e["ev"] == "Find") {
            let k = format!("{},{},{},{}", e["cr"].as_str().unwrap_or(""), e["src"].as_str().unwrap_or(""), e["dest"].as_str().unwrap_or(""), e["step"].as_str().unwrap_or(""));
            finds.insert(k, e["hit"].as_bool().unwrap_or(false));
        }
        ev["finds"] = Value::Array(
            finds.iter().map(|(k, h)| {
                let parts: Vec<&str> = k.split(',').collect();
                json!({"k": parts, "hit": h})
            }).collect(),
        );
        match res {
            Outcome::Ok(ep) => {
                let f = flat::flat_ep_unit(&ep, p, pm, unit);
                if !f.nonfinite.is_empty() {
                    ev["out"] = fail("eval", "NonFinite", &f.nonfinite.join(" "));
                } else {
                    // structure of the result (which carriers / services / sources exist), so that
                    // the trace specifications can build the paths they talk about
                    let mut crs: Vec<String> = ep.balance_cr.keys().map(|c| c.to_string()).collect();
                    crs.sort();
                    let mut srvs = serde_json::Map::new();
                    let mut srcs = serde_json::Map::new();
                    for (c, b) in &ep.balance_cr {
                        let mut a: Vec<String> = b.used.epus_by_srv_an.keys().map(|x| x.to_string()).collect();
                        a.sort();
                        srvs.insert(c.to_string(), json!(a));
                        let mut a: Vec<String> = b.prod.by_src_an.keys().map(|x| x.to_string()).collect();
                        a.sort();
                        srcs.insert(c.to_string(), json!(a));
                    }
                    let balkeys: Vec<&str> = f.m.keys().filter_map(|k| k.strip_prefix("bal.")).collect();
                    let m2keys: Vec<&str> = f.m.keys().filter_map(|k| k.strip_prefix("m2.")).collect();
                    // DHW renewable fraction (cte::fraccion_renovable_acs_nrb), a ratio in millionths
                    let acs = match catch_unwind(AssertUnwindSafe(|| cte::fraccion_renovable_acs_nrb(&ep))) {
                        Ok(Ok(v)) if v.is_finite() => json!({"ok": true, "v": ((v as f64) * 1e6).round().clamp(-2.0e9, 2.0e9) as i64, "nonfinite": false}),
                        // a number that is not finite (0/0 with an all-zero supply factor ...): still "a number", flagged
                        Ok(Ok(_)) => json!({"ok": true, "v": 0, "nonfinite": true}),
                        Ok(Err(e)) => json!({"ok": false, "err": err_kind(&e)}),
                        Err(_) => json!({"ok": false, "err": "Panic"}),
                    };
                    // keys of misc after cte::incorpora_demanda_renovable_acs_nrb
                    let misc: Vec<String> = match catch_unwind(AssertUnwindSafe(|| cte::incorpora_demanda_renovable_acs_nrb(ep.clone()))) {
                        Ok(e2) => {
                            let mut k: Vec<String> = e2.misc.as_ref().map(|m| m.keys().cloned().collect()).unwrap_or_default();
                            k.sort();
                            k
                        }
                        Err(_) => vec!["PANIC".to_string()],
                    };
                    let tagged = ep.components.data.iter().any(|c| c.comment().contains("CTEEPBD_") && !c.comment().contains(flat::LOW_SCOP_TAG));
                    let mut tk: Vec<&String> = f.tkeys.iter().filter(|k| !k.ends_with(".f_match")).collect();
                    tk.sort();
                    let mut fk: Vec<&String> = f.tkeys.iter().filter(|k| k.ends_with(".f_match")).collect();
                    fk.sort();
                    let mut meta: Vec<Value> = ep.components.meta.iter().map(|m| json!([m.key, m.value])).collect();
                    meta.sort_by_key(|m| m.to_string());
                    ev["out"] = json!({"ok": true, "crs": crs, "srvs": srvs, "srcs": srcs, "acs": acs, "misc": misc, "tagged": tagged, "meta": meta,
                                       "balkeys": balkeys, "m2keys": m2keys, "tkeys": tk, "fkeys": fk, "flat": f.m, "m2c": f.cents});
                    if case.get("render").and_then(|x| x.as_bool()).unwrap_or(false) {
                        ev["doc"] = render_docs(&ep, p, pm);
                    }
                }
            }
            Outcome::Err(k, m) => ev["out"] = fail("eval", k, &m),
            Outcome::Panic(m) => ev["out"] = fail("eval", "Panic", &m),
        }
        writeln!(out, "{}", ev).ok();
        }
    }
    Some((p, used_pm, s_case))
}

/// the three renderings of a result as token streams (harness/src/lex.rs), as the CLI produces them
/// (the DHW indicator is incorporated first); the JSON document is read back and flattened again
fn render_docs(ep: &EnergyPerformance, p: i32, pm: i32) -> Value {
    use cteepbd::{AsCtePlain, AsCteXml};
    let ep = match catch_unwind(AssertUnwindSafe(|| cte::incorpora_demanda_renovable_acs_nrb(ep.clone()))) {
        Ok(e) => e,
        Err(_) => return json!({"ok": false, "err": "Panic", "stage": "acs"}),
    };
    let mut doc = json!({"ok": true});
    match catch_unwind(AssertUnwindSafe(|| ep.to_xml())) {
        Ok(x) => {
            let toks = lex::lex_xml(&x);
            doc["xmlrecs"] = Value::Array(lex::xml_records(&toks));
            doc["xml"] = Value::Array(toks);
        }
        Err(_) => return json!({"ok": false, "err": "Panic", "stage": "xml"}),
    }
    // the factors of the result (derived cogeneration factors included), in thousandths, for the XML / plain clauses
    doc["facs"] = Value::Array(ep.wfactors.wdata.iter().map(|f| json!({"cr": f.carrier.to_string(), "src": f.source.to_string(),
        "dest": f.dest.to_string(), "step": f.step.to_string(),
        "m": [(f.ren as f64 * 1000.0).round() as i64, (f.nren as f64 * 1000.0).round() as i64, (f.co2 as f64 * 1000.0).round() as i64]})).collect());
    match catch_unwind(AssertUnwindSafe(|| ep.to_plain())) {
        Ok(x) => doc["plain"] = Value::Array(lex::lex_plain(&x)),
        Err(_) => return json!({"ok": false, "err": "Panic", "stage": "plain"}),
    }
    doc["misc"] = json!(ep.misc.as_ref().map(|m| {
        let mut k: Vec<String> = m.keys().cloned().collect();
        k.sort();
        k
    }).unwrap_or_default());
    match serde_json::to_string(&ep) {
        Ok(s) => match serde_json::from_str::<EnergyPerformance>(&s) {
            Ok(ep2) => {
                let f2 = flat::flat_ep_unit(&ep2, p, pm, 1.0);
                doc["json"] = json!({"valid": true, "reread": true, "flat": f2.m,
                                     "ncomps": ep2.components.data.len(), "nfac": ep2.wfactors.wdata.len()});
            }
            Err(e) => doc["json"] = json!({"valid": true, "reread": false, "err": e.to_string().chars().take(80).collect::<String>()}),
        },
        Err(e) => doc["json"] = json!({"valid": false, "err": e.to_string().chars().take(80).collect::<String>()}),
    }
    doc
}

/// bytes of a token-level file (spec/Faults.tla): fields joined by ",", lines by newline;
/// the atom "<FF>" is the raw byte 0xFF (invalid UTF-8)
fn fault_bytes(lines: &Value) -> Vec<u8> {
    let mut out: Vec<u8> = vec![];
    for ln in lines.as_array().unwrap_or(&vec![]) {
        let mut first = true;
        for f in ln.as_array().unwrap_or(&vec![]) {
            if !first {
                out.push(b',');
            }
            first = false;
            let t0 = f.as_str().unwrap_or("").replace("<NA>", "ñ€").replace("<CM>", "# ñ>€\"ñ&<\\")
                // long tails of two- and three-byte characters, at every alignment: a cut at any byte offset falls
                // inside a character for one of them
                .replace("<L20>", &"ñ".repeat(150)).replace("<L21>", &format!("x{}", "ñ".repeat(150)))
                .replace("<L30>", &"€".repeat(100)).replace("<L31>", &format!("x{}", "€".repeat(100))).replace("<L32>", &format!("xx{}", "€".repeat(100)));
            let t = t0.as_str();
            let mut rest = t;
            while let Some(i) = rest.find("<FF>") {
                out.extend_from_slice(rest[..i].as_bytes());
                out.push(0xFF);
                rest = &rest[i + 4..];
            }
            out.extend_from_slice(rest.as_bytes());
        }
        out.push(b'\n');
    }
    out
}

const FAULT_BUILDING: &str = "0, CONSUMO, ILU, ELECTRICIDAD, 4, 6\n0, PRODUCCION, EL_INSITU, 9, 1\n1, CONSUMO, CAL, GASNATURAL, 5, 5\n0, CONSUMO, NEPB, ELECTRICIDAD, 1, 1\n3, PRODUCCION, EL_COGEN, 2, 2\n3, CONSUMO, COGEN, GASNATURAL, 7, 7";

/// one library call under catch_unwind, as a stage record
fn stage<T, F: FnOnce() -> Result<T, cteepbd::error::EpbdError>>(stages: &mut Vec<Value>, name: &str, f: F) -> Option<T> {
    match guarded(f) {
        Outcome::Ok(v) => {
            stages.push(json!({"s": name, "o": "Ok"}));
            Some(v)
        }
        Outcome::Err(k, m) => {
            stages.push(json!({"s": name, "o": k, "msg": m.chars().take(60).collect::<String>()}));
            None
        }
        Outcome::Panic(m) => {
            stages.push(json!({"s": name, "o": "Panic", "msg": m.chars().take(120).collect::<String>()}));
            None
        }
    }
}

fn infallible<T, F: FnOnce() -> T>(stages: &mut Vec<Value>, name: &str, f: F) -> Option<T> {
    stage(stages, name, || Ok(f()))
}

/// every public entry point of the library on one (possibly corrupted) text
fn fault_case(case: &Value, out: &mut dyn Write) {
    use cteepbd::{AsCtePlain, AsCteXml};
    let bytes = fault_bytes(&case["lines"]);
    let text = String::from_utf8_lossy(&bytes).to_string();
    let kind = case["kind"].as_str().unwrap_or("comps");
    let mut stages: Vec<Value> = vec![];
    let (comps, fac) = if kind == "comps" {
        let c = stage(&mut stages, "parse", || text.parse::<Components>());
        let f = stage(&mut stages, "factors", || {
            cte::wfactors_from_loc("PENINSULA", &cte::CTE_LOCWF_RITE2014, UserWF { red1: None, red2: None }, cte::CTE_USERWF)
        });
        (c, f)
    } else {
        let f = stage(&mut stages, "prepare", || {
            cte::wfactors_from_str(&text, UserWF { red1: None, red2: None }, cte::CTE_USERWF)
        });
        let _ = stage(&mut stages, "parse-factors", || text.parse::<Factors>());
        let c = stage(&mut stages, "parse", || FAULT_BUILDING.parse::<Components>());
        (c, f)
    };
    if let (Some(c), Some(f)) = (comps, fac) {
        let _ = stage(&mut stages, "renormalize", || c.clone().normalize());
        let _ = infallible(&mut stages, "display", || (c.to_string(), f.to_string()));
        let fs = infallible(&mut stages, "strip", || f.clone().strip(&c));
        for (name, fset) in [("full", Some(f.clone())), ("stripped", fs)] {
            if let Some(fset) = fset {
                for lm in [false, true] {
                    let st = format!("eval-{}-lm{}", name, lm as i32);
                    if let Some(ep) = stage(&mut stages, &st, || energy_performance(&c, &fset, 0.5, 1.0, lm)) {
                        if let Some(ep) = infallible(&mut stages, "acs", || cte::incorpora_demanda_renovable_acs_nrb(ep)) {
                            let _ = infallible(&mut stages, "plain", || ep.to_plain());
                            let _ = infallible(&mut stages, "xml", || ep.to_xml());
                            let _ = stage(&mut stages, "json", || {
                                serde_json::to_string(&ep).map_err(|e| cteepbd::error::EpbdError::WrongInput(e.to_string()))
                            });
                        }
                    }
                }
            }
        }
    }
    let ev = json!({"ev": "Fault", "case": case["case"], "tag": "lib", "kind": kind, "base": case["base"], "depth": case["depth"],
                    "lines": case["lines"], "stages": stages});
    writeln!(out, "{}", ev).ok();
}

fn main() {
    // learn the library's generated comments before hooks are recording
    let _ = flat::generated_comments();
    // silence the default panic message: panics are data here
    std::panic::set_hook(Box::new(|_| {}));
    let args: Vec<String> = std::env::args().collect();
    let mode = args.get(1).map(|s| s.as_str()).unwrap_or("cases");
    let stdin = std::io::stdin();
    // the trace goes to a file: the library itself prints to stdout in places
    // (e.g. a stray println! in cte::fraccion_renovable_acs_nrb), which would corrupt a trace on stdout
    let path = match args.get(2) {
        Some(p) => p.clone(),
        None => {
            eprintln!("usage: run <mode> <trace-file> < cases.ndjson");
            std::process::exit(2);
        }
    };
    let file = match std::fs::File::create(&path) {
        Ok(f) => f,
        Err(e) => {
            eprintln!("harness: cannot create {}: {}", path, e);
            std::process::exit(2);
        }
    };
    let mut out = std::io::BufWriter::new(file);
    // progress: the ids of the cases that were handled completely, one per line, flushed with the trace - if the
    // library takes the whole process down (abort, stack overflow), the driver reads here which case did it
    let mut done = std::fs::File::create(format!("{}.done", path)).ok();
    let mut mark = |case: &Value, out: &mut std::io::BufWriter<std::fs::File>| {
        out.flush().ok();
        if let Some(d) = done.as_mut() {
            writeln!(d, "{}", case["case"]).ok();
        }
    };
    match mode {
        "cases" => {
            for line in stdin.lock().lines() {
                let line = match line {
                    Ok(l) => l,
                    Err(_) => break,
                };
                if line.trim().is_empty() {
                    continue;
                }
                match serde_json::from_str::<Value>(&line) {
                    Ok(case) => {
                        run_case(&case, &mut out);
                        mark(&case, &mut out);
                    }
                    Err(e) => {
                        eprintln!("harness: bad case line: {}", e);
                        std::process::exit(2);
                    }
                }
            }
        }
        "flatjson" => {
            // results written by the real program (--json), flattened like the library's results; the
            // events of one case share the exponents of its first event
            let mut forced: Option<(Value, i32, i32, f64)> = None;
            for line in stdin.lock().lines() {
                let line = match line {
                    Ok(l) => l,
                    Err(_) => break,
                };
                if line.trim().is_empty() {
                    continue;
                }
                let c: Value = match serde_json::from_str(&line) {
                    Ok(c) => c,
                    Err(_) => continue,
                };
                let mut ev = json!({"ev": "Eval", "case": c["case"], "tag": c["tag"], "cli": true});
                let txt = c["json"].as_str().and_then(|p| std::fs::read_to_string(p).ok());
                let ep = txt.as_ref().and_then(|t| serde_json::from_str::<EnergyPerformance>(t).ok());
                match (c["exit"].as_i64(), ep) {
                    (Some(0), Some(ep)) => {
                        let ac = flat::abs_of_components(&ep.components);
                        let maxf = ep.wfactors.wdata.iter().fold(1.0f64, |m, f| m.max(f.ren.abs() as f64).max(f.nren.abs() as f64));
                        let sum_in: f64 = ac.iter().filter(|c| c.kind != "OUT").map(|c| c.v.iter().map(|x| x.abs()).sum::<f64>()).sum();
                        let mut s = (sum_in * maxf).max(1.0);
                        // the document states its numbers with three decimals: a logging unit finer than that would
                        // count the rounding of the document as a difference
                        let mut p = exponent(s).min(3);
                        let mut pm = exponent(s / (ep.arearef as f64).max(1e-9)).min(3);
                        match &forced {
                            Some((case, fp, fpm, fs)) if *case == c["case"] => {
                                p = *fp;
                                pm = *fpm;
                                s = *fs;
                            }
                            _ => forced = Some((c["case"].clone(), p, pm, s)),
                        }
                        let f = flat::flat_ep_unit(&ep, p, pm, 1.0);
                        let mut fk: Vec<&String> = f.tkeys.iter().filter(|k| k.ends_with(".f_match")).collect();
                        fk.sort();
                        ev["N"] = json!(ep.components.data.first().map(|e| e.num_steps()).unwrap_or(0));
                        ev["p"] = json!(p);
                        ev["pm"] = json!(pm);
                        ev["q"] = json!(2);
                        ev["mag"] = json!((s * 10f64.powi(p)).ceil() as i64);
                        ev["magm"] = json!((s / (ep.arearef as f64).max(1e-9) * 10f64.powi(pm)).ceil() as i64);
                        ev["comps"] = Value::Array(ac.iter().map(|c| c.to_json(2)).collect());
                        // structure of the result, and the parameters of the run as the caller states them, so that
                        // the history specifications (k_exp, area ...) can judge runs of the real program too
                        let mut crs: Vec<String> = ep.balance_cr.keys().map(|c| c.to_string()).collect();
                        crs.sort();
                        let mut srvs = serde_json::Map::new();
                        let mut srcs = serde_json::Map::new();
                        for (cr, b) in &ep.balance_cr {
                            let mut a: Vec<String> = b.used.epus_by_srv_an.keys().map(|x| x.to_string()).collect();
                            a.sort();
                            srvs.insert(cr.to_string(), json!(a));
                            let mut a: Vec<String> = b.prod.by_src_an.keys().map(|x| x.to_string()).collect();
                            a.sort();
                            srcs.insert(cr.to_string(), json!(a));
                        }
                        for k in ["kexp", "area", "lm", "run"] {
                            if let Some(v) = c.get(k) {
                                ev[k] = v.clone();
                            }
                        }
                        let balkeys: Vec<&str> = f.m.keys().filter_map(|k| k.strip_prefix("bal.")).collect();
                        let m2keys: Vec<&str> = f.m.keys().filter_map(|k| k.strip_prefix("m2.")).collect();
                        let mut tk: Vec<&String> = f.tkeys.iter().filter(|k| !k.ends_with(".f_match")).collect();
                        tk.sort();
                        // the DHW renewable fraction of the result the program wrote (a ratio in millionths), as for library events
                        let acs_cli = match catch_unwind(AssertUnwindSafe(|| cte::fraccion_renovable_acs_nrb(&ep))) {
                            Ok(Ok(v)) if v.is_finite() => json!({"ok": true, "v": ((v as f64) * 1e6).round().clamp(-2.0e9, 2.0e9) as i64, "nonfinite": false}),
                            Ok(Ok(_)) => json!({"ok": true, "v": 0, "nonfinite": true}),
                            Ok(Err(e)) => json!({"ok": false, "err": err_kind(&e)}),
                            Err(_) => json!({"ok": false, "err": "Panic"}),
                        };
                        ev["out"] = json!({"ok": true, "fkeys": fk, "flat": f.m, "crs": crs, "srvs": srvs, "srcs": srcs,
                                           "balkeys": balkeys, "m2keys": m2keys, "tkeys": tk});
                        ev["out"]["acs"] = acs_cli;
                    }
                    (code, _) => {
                        ev["out"] = json!({"ok": false, "stage": "cli", "err": format!("Exit{}", code.unwrap_or(-1))});
                    }
                }
                writeln!(out, "{}", ev).ok();
            }
        }
        "lexfiles" => {
            // documents written by the real program: same lexers as for the library's renderings
            for line in stdin.lock().lines() {
                let line = match line {
                    Ok(l) => l,
                    Err(_) => break,
                };
                if line.trim().is_empty() {
                    continue;
                }
                let c: Value = match serde_json::from_str(&line) {
                    Ok(c) => c,
                    Err(_) => continue,
                };
                let rd = |k: &str| c[k].as_str().and_then(|p| std::fs::read(p).ok()).map(|b| String::from_utf8_lossy(&b).to_string());
                let mut ev = json!({"ev": "CliDocs", "case": c["case"], "tag": c["tag"], "exit": c["exit"]});
                ev["xml"] = match rd("xml") {
                    Some(x) => json!({"present": true, "toks": lex::lex_xml(&x)}),
                    None => json!({"present": false}),
                };
                ev["plain"] = match rd("txt") {
                    Some(x) => json!({"present": true, "entries": lex::lex_plain(&x)}),
                    None => json!({"present": false}),
                };
                ev["json"] = match rd("json") {
                    Some(x) => match serde_json::from_str::<EnergyPerformance>(&x) {
                        Ok(_) => json!({"present": true, "reread": true}),
                        Err(e) => json!({"present": true, "reread": false, "err": e.to_string().chars().take(80).collect::<String>()}),
                    },
                    None => json!({"present": false}),
                };
                writeln!(out, "{}", ev).ok();
            }
        }
        "triple" => {
            // the texts of spec/Triple.tla on RenNrenCo2::from_str and get_meta_rennren
            for line in stdin.lock().lines() {
                let line = match line {
                    Ok(l) => l,
                    Err(_) => break,
                };
                if line.trim().is_empty() {
                    continue;
                }
                match serde_json::from_str::<Value>(&line) {
                    Ok(case) => {
                        triple::triple_case(&case, &mut out);
                        mark(&case, &mut out);
                    }
                    Err(e) => {
                        eprintln!("harness: bad case line: {}", e);
                        std::process::exit(2);
                    }
                }
            }
        }
        "meta" => {
            // behaviours of spec/MetaStore.tla on the real Components / Factors metadata
            for line in stdin.lock().lines() {
                let line = match line {
                    Ok(l) => l,
                    Err(_) => break,
                };
                if line.trim().is_empty() {
                    continue;
                }
                match serde_json::from_str::<Value>(&line) {
                    Ok(case) => {
                        meta::meta_case(&case, &mut out);
                        mark(&case, &mut out);
                    }
                    Err(e) => {
                        eprintln!("harness: bad case line: {}", e);
                        std::process::exit(2);
                    }
                }
            }
        }
        "fault" => {
            for line in stdin.lock().lines() {
                let line = match line {
                    Ok(l) => l,
                    Err(_) => break,
                };
                if line.trim().is_empty() {
                    continue;
                }
                match serde_json::from_str::<Value>(&line) {
                    Ok(case) => {
                        fault_case(&case, &mut out);
                        mark(&case, &mut out);
                    }
                    Err(e) => {
                        eprintln!("harness: bad case line: {}", e);
                        std::process::exit(2);
                    }
                }
            }
        }
        _ => {
            eprintln!("usage: run cases < cases.ndjson > trace.ndjson");
            std::process::exit(2);
        }
    }
    out.flush().ok();
}
