//! Mode `meta`: behaviours of spec/MetaStore.tla executed on the real types.  A case is a list of
//! operations (load a text with some metadata lines, set_meta, save + reload); each is made on a
//! Components value and on a Factors value, and one event per operation records the metadata of
//! both afterwards (the list of pairs, and what get_meta / has_meta answer for every key of the
//! universe).  No comparison is made here.

use std::io::Write;
use std::panic::{catch_unwind, AssertUnwindSafe};

use serde_json::{json, Value};

use cteepbd::types::{Meta, MetaVec};
use cteepbd::{Components, Factors};

const COMP_LINE: &str = "0, CONSUMO, ILU, ELECTRICIDAD, 1.00, 2.00";
const FACTOR_LINE: &str = "ELECTRICIDAD, RED, SUMINISTRO, A, 0.100, 2.000, 0.300";

fn meta_text(lines: &Value) -> String {
    let mut s = String::new();
    for ln in lines.as_array().map(|a| a.as_slice()).unwrap_or(&[]) {
        let (k, v) = (ln["k"].as_str().unwrap_or(""), ln["v"].as_str().unwrap_or(""));
        if ln["pre"].as_str() == Some("CTE") {
            s.push_str(&format!("#CTE_{}: {}\n", k, v));
        } else {
            s.push_str(&format!("#META {}: {}\n", k, v));
        }
    }
    s
}

fn pairs(m: &[Meta]) -> Value {
    Value::Array(m.iter().map(|e| json!([e.key, e.value])).collect())
}

fn answers<T: MetaVec>(x: &T, universe: &[String]) -> Value {
    let mut o = serde_json::Map::new();
    for k in universe {
        o.insert(k.clone(), json!({"get": x.get_meta(k).unwrap_or_else(|| "<none>".to_string()), "has": x.has_meta(k)}));
    }
    Value::Object(o)
}

pub fn meta_case(case: &Value, out: &mut dyn Write) {
    let universe: Vec<String> = case["universe"].as_array().map(|a| a.iter().filter_map(|x| x.as_str().map(String::from)).collect()).unwrap_or_default();
    let mut comps: Option<Components> = None;
    let mut facs: Option<Factors> = None;
    for (i, step) in case["ops"].as_array().map(|a| a.as_slice()).unwrap_or(&[]).iter().enumerate() {
        let op = &step["op"];
        let name = op["op"].as_str().unwrap_or("");
        let r = catch_unwind(AssertUnwindSafe(|| -> Result<(), String> {
            match name {
                "load" => {
                    let mt = meta_text(&op["lines"]);
                    comps = Some(format!("{}{}\n", mt, COMP_LINE).parse::<Components>().map_err(|e| format!("components: {}", e))?);
                    facs = Some(format!("{}{}\n", mt, FACTOR_LINE).parse::<Factors>().map_err(|e| format!("factors: {}", e))?);
                }
                "set" => {
                    let (k, v) = (op["k"].as_str().unwrap_or(""), op["v"].as_str().unwrap_or(""));
                    if let Some(c) = comps.as_mut() {
                        c.set_meta(k, v);
                    }
                    if let Some(f) = facs.as_mut() {
                        f.set_meta(k, v);
                    }
                }
                "reload" => {
                    if let Some(c) = comps.as_ref() {
                        comps = Some(c.to_string().parse::<Components>().map_err(|e| format!("components: {}", e))?);
                    }
                    if let Some(f) = facs.as_ref() {
                        facs = Some(f.to_string().parse::<Factors>().map_err(|e| format!("factors: {}", e))?);
                    }
                }
                _ => {}
            }
            Ok(())
        }));
        let mut ev = json!({"ev": "Meta", "case": case["case"], "tag": format!("op{}", i + 1), "i": i + 1, "op": op});
        match r {
            Ok(Ok(())) => {
                ev["ok"] = json!(true);
                ev["comps"] = comps.as_ref().map(|c| pairs(&c.meta)).unwrap_or(json!([]));
                ev["facs"] = facs.as_ref().map(|f| pairs(&f.wmeta)).unwrap_or(json!([]));
                ev["cget"] = comps.as_ref().map(|c| answers(c, &universe)).unwrap_or(json!({}));
                ev["fget"] = facs.as_ref().map(|f| answers(f, &universe)).unwrap_or(json!({}));
                ev["ndata"] = json!(comps.as_ref().map(|c| c.data.len()).unwrap_or(0));
                ev["nfac"] = json!(facs.as_ref().map(|f| f.wdata.len()).unwrap_or(0));
            }
            Ok(Err(e)) => {
                ev["ok"] = json!(false);
                ev["err"] = json!(e.chars().take(120).collect::<String>());
            }
            Err(_) => {
                ev["ok"] = json!(false);
                ev["err"] = json!("Panic");
            }
        }
        writeln!(out, "{}", ev).ok();
    }
}
