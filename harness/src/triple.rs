//! Mode `triple`: the texts of spec/Triple.tla read by RenNrenCo2::from_str and, as the value of a
//! CTE_RED1 metadata line, by MetaVec::get_meta_rennren.  One event per text; no comparison here.

use std::io::Write;
use std::panic::{catch_unwind, AssertUnwindSafe};

use serde_json::{json, Value};

use cteepbd::types::{MetaVec, RenNrenCo2};
use cteepbd::Components;

fn milli(x: f32) -> i64 {
    if x.is_nan() {
        -999999
    } else {
        (x as f64 * 1000.0).round() as i64
    }
}

fn text_of(t: &Value) -> String {
    let items: Vec<String> = t["items"]
        .as_array()
        .map(|a| a.as_slice())
        .unwrap_or(&[])
        .iter()
        .map(|it| {
            let (k, v) = (it["key"].as_str().unwrap_or(""), it["val"].as_str().unwrap_or(""));
            if k.is_empty() {
                v.to_string()
            } else {
                format!("{}: {}", k, v)
            }
        })
        .collect();
    format!("{}{}{}", t["open"].as_str().unwrap_or(""), items.join(", "), t["close"].as_str().unwrap_or(""))
}

fn outcome(r: std::thread::Result<Option<RenNrenCo2>>) -> Value {
    match r {
        Ok(Some(x)) => json!({"ok": true, "panic": false, "v": [milli(x.ren), milli(x.nren), milli(x.co2)]}),
        Ok(None) => json!({"ok": false, "panic": false, "v": [0, 0, 0]}),
        Err(_) => json!({"ok": false, "panic": true, "v": [0, 0, 0]}),
    }
}

pub fn triple_case(case: &Value, out: &mut dyn Write) {
    let text = text_of(&case["text"]);
    let direct = catch_unwind(AssertUnwindSafe(|| text.parse::<RenNrenCo2>().ok()));
    let meta = catch_unwind(AssertUnwindSafe(|| {
        format!("#META CTE_RED1: {}\n0, CONSUMO, ILU, ELECTRICIDAD, 1.00\n", text)
            .parse::<Components>()
            .ok()
            .and_then(|c| c.get_meta_rennren("CTE_RED1"))
    }));
    let ev = json!({"ev": "Triple", "case": case["case"], "tag": "triple", "text": case["text"], "string": text,
                    "parse": outcome(direct), "meta": outcome(meta)});
    writeln!(out, "{}", ev).ok();
}
