------------------------------ MODULE MC_C02 ------------------------------
(***************************************************************************)
(* Exhaustive model configuration for the balance (C01-C04, C12, C13):     *)
(* TLC enumerates buildings on a small lattice, evaluates the              *)
(* specification on each (which also audits the exact arithmetic for       *)
(* 32-bit overflow), checks the model-level invariants and emits one CASE  *)
(* line per building for the S->I replay on the real library.              *)
(*                                                                         *)
(* Inputs are chosen by two actions from one initial state (so that all    *)
(* workers share the enumeration).  Building: electricity used by two      *)
(* services, non-EPB electricity use, PV, a cogenerator (gas or biomass)   *)
(* whose fuel input is not proportional to its output, a gas boiler,       *)
(* ambient heat with surplus production, district heat, auxiliaries of the *)
(* boiler and of the cogenerator.  In the "quick"                          *)
(* tier the configuration (k_exp, area, factor set, fuel) is a covering    *)
(* function of the values; in the "thorough" tier it is the full product.  *)
(***************************************************************************)
EXTENDS Factors, Flat, Regulatory, Json, TLC

CONSTANTS Tier, MaxN, UaVals, PvVals, ChpVals

VARIABLES ph, n, lm, shape, part, comps, cfg
vars == <<ph, n, lm, shape, part, comps, cfg>>

KSet == << <<0, 1>>, <<1, 4>>, <<1, 1>>, <<3, 10>> >>
ASet == << <<1, 1>>, <<5, 2>> >>
FSet == <<"PENINSULA", "CANARIAS", "USER1", "USER2">>
Fuels == <<"GASNATURAL", "BIOMASA">>

FacList(name) ==
  IF name \in Locs THEN FromList(LocBase(name), NoUser, NoUser).f
  ELSE IF name = "USER1" THEN FromList(User1, NoUser, NoUser).f
  ELSE FromList(User2, NoUser, NoUser).f
FacCase(name) ==
  IF name \in Locs THEN [mode |-> "loc", loc |-> name]
  ELSE [mode |-> "str", lines |-> IF name = "USER1" THEN User1 ELSE User2]

\* production / use ratios for which f_match has a small denominator
RatioOK(p, u) == p = 0 \/ u = 0 \/ p = u \/ p = 2 * u \/ u = 2 * p \/ p = 3 * u \/ u = 3 * p

Init == ph = 0 /\ n = 0 /\ lm = FALSE /\ shape = <<>> /\ part = <<>> /\ comps = <<>> /\ cfg = <<>>

\* shape: which optional parts the building has
PickShape ==
  /\ ph = 0 /\ ph' = 1
  /\ n' \in 1..MaxN
  /\ lm' \in BOOLEAN
  /\ \E pv \in BOOLEAN, chp \in BOOLEAN, nep \in BOOLEAN, th \in BOOLEAN :
        shape' = [pv |-> pv, chp |-> chp, nep |-> nep, th |-> th]
  /\ UNCHANGED <<part, comps, cfg>>

Const(x) == [t \in 1..n |-> x]
H(v) == ISumSet(LAMBDA t : (2 * t + 1) * v[t], DOMAIN v)

\* EPB electricity use of the two services (a separate action only to spread the
\* enumeration over all TLC workers)
PickUse ==
  /\ ph = 1 /\ ph' = 2
  /\ \E ua \in [1..n -> UaVals], ub \in {0, 2}, nep \in {0, 2} :
       /\ (~shape.nep => nep = 0)
       /\ part' = [ua |-> ua, ub |-> Const(ub), nep |-> Const(nep)]
  /\ UNCHANGED <<n, lm, shape, comps, cfg>>

PickValues ==
  /\ ph = 2 /\ ph' = 3
  /\ \E pv \in [1..n -> PvVals], chp \in [1..n -> ChpVals] :
       LET ua == part.ua  ub == part.ub  nev == part.nep
           pvv == IF shape.pv THEN pv ELSE Const(0)
           chv == IF shape.chp THEN chp ELSE Const(0)
           h == H(ua) + 3 * H(ub) + 5 * H(pvv) + 7 * H(chv) + 11 * H(nev) + (IF lm THEN 1 ELSE 0)
       IN /\ (~shape.pv => pv = Const(0)) /\ (~shape.chp => chp = Const(0))
          /\ (lm => \A t \in 1..n : RatioOK(pvv[t] + chv[t], ua[t] + ub[t] + (IF (h \div 3) % 4 \in {0, 2} THEN 1 ELSE 0)))
          /\ \E ki \in 1..4, ai \in 1..2, fi \in 1..4, gi \in 1..2 :
               /\ (Tier = "quick" => /\ ki = (h % 4) + 1 /\ ai = ((h \div 4) % 2) + 1
                                     /\ fi = ((h \div 8) % 4) + 1 /\ gi = ((h \div 32) % 2) + 1)
               /\ cfg' = [k |-> KSet[ki], area |-> ASet[ai], fac |-> FSet[fi], fuel |-> Fuels[gi]]
               /\ comps' =
                    << Used(1, "ELECTRICIDAD", "CAL", ua), Used(1, "ELECTRICIDAD", "ACS", ub),
                       Used(2, "GASNATURAL", "CAL", Const(2)) >>
                    \o (IF shape.nep THEN <<Used(0, "ELECTRICIDAD", "NEPB", nev)>> ELSE <<>>)
                    \* a source may be declared by several components (two PV fields, two cogenerators): in one
                    \* third / one fifth of the buildings the production is split over two system ids
                    \o (IF shape.pv THEN (IF h % 5 = 0 THEN <<Prod(0, "EL_INSITU", [t \in 1..n |-> pvv[t] \div 2]),
                                                              Prod(7, "EL_INSITU", [t \in 1..n |-> pvv[t] - (pvv[t] \div 2)])>>
                                          ELSE <<Prod(0, "EL_INSITU", pvv)>>) ELSE <<>>)
                    \o (IF shape.chp THEN (IF h % 3 = 0 THEN <<Prod(3, "EL_COGEN", [t \in 1..n |-> chv[t] - (chv[t] \div 2)]),
                                                               Prod(6, "EL_COGEN", [t \in 1..n |-> chv[t] \div 2])>>
                                           ELSE <<Prod(3, "EL_COGEN", chv)>>)
                                          \o <<Used(3, Fuels[gi], "COGEN", [t \in 1..n |-> 2 * chv[t] + t])>>
                                          \* the cogenerator may also take electricity as an input (its own consumption)
                                          \o (IF (h \div 7) % 5 = 0 THEN <<Used(3, "ELECTRICIDAD", "COGEN", Const(1))>> ELSE <<>>) ELSE <<>>)
                    \o (IF shape.th THEN <<Used(4, "EAMBIENTE", "ACS", Const(1)), Prod(4, "EAMBIENTE", [t \in 1..n |-> t]),
                                           Used(5, "RED1", "CAL", Const(1)), Need("ACS", Const(3))>> ELSE <<>>)
                    \* auxiliary electricity (as it is after the assignment of services: the gas boiler serves CAL only,
                    \* the cogenerator's only consumption is its fuel): none / boiler / cogenerator / both, by the hash
                    \o (IF (h \div 3) % 4 \in {0, 2} THEN <<Aux(2, "CAL", Const(1))>> ELSE <<>>)
                    \o (IF shape.chp /\ (h \div 3) % 4 \in {0, 1} THEN <<Aux(3, "COGEN", [t \in 1..n |-> t])>> ELSE <<>>)
  /\ UNCHANGED <<n, lm, shape, part>>

Next == PickShape \/ PickUse \/ PickValues
Spec == Init /\ [][Next]_vars

\* ------------------------------------------------------------ model level
F == FacList(cfg.fac)
K == Norm(cfg.k[1], cfg.k[2])
A == Norm(cfg.area[1], cfg.area[2])
Done == ph = 3

\* P_C01 on the specification itself: conservation and bounds per carrier and step
Conservation(r) ==
  \A c \in r.crs : LET b == r.cr[c] IN \A t \in 1..n :
    /\ RAdd(b.up.used[t], b.ed.exp[t]) = R(b.up.pr[t])
    /\ RAdd(b.ed.expN[t], b.ed.expG[t]) = b.ed.exp[t]
    /\ RAdd(b.up.used[t], b.ed.del[t]) = R(b.up.epus[t])
    /\ RNonNeg(b.up.used[t]) /\ RNonNeg(b.ed.exp[t]) /\ RNonNeg(b.ed.expN[t])
    /\ RNonNeg(b.ed.expG[t]) /\ RNonNeg(b.ed.del[t])
    /\ RLeq(b.up.used[t], R(IMin(b.up.epus[t], b.up.pr[t])))
    /\ RLeq(b.ed.expN[t], R(b.up.nepus[t]))
    /\ \A j \in b.up.srcs : RAdd(b.up.usedJ[j][t], b.ed.expJ[j][t]) = R(b.up.prJ[j][t])
                            /\ RNonNeg(b.up.usedJ[j][t]) /\ RNonNeg(b.ed.expJ[j][t])

\* every look-up of the evaluation is satisfied by the prepared set (C07 completeness, model level)
Complete(f, r) ==
  LET dd == CgnDerived(comps, f) IN
  \A key \in CgnNeeded(comps) \cup UNION {r.cr[c].lookups : c \in r.crs} : Has2(f, dd, key)

\* forces the evaluation of every reported field (overflow audit) and emits the case
Emit(r) ==
  /\ Cardinality(FlatResult(r, 3, 3)) > 0
  /\ PrintT(<<"CASE", ToJson([src |-> [comps |-> comps], fac |-> FacCase(cfg.fac),
                               kexp |-> cfg.k, area |-> cfg.area, lm |-> lm,
                               runs |-> << [tag |-> "base"] >>])>>)

\* ---- C03 at model level: step B is affine in k_exp, flows and step A do not depend on it
KPoints == {Zero, <<1, 4>>, <<1, 2>>, <<3, 10>>, One}
AffineIn(f, r0, r1, rk, k) ==
  \A c \in r0.crs :
    /\ rk.cr[c].we.b = TAdd(r0.cr[c].we.a, TScale(TSub(r1.cr[c].we.b, r0.cr[c].we.a), k))
    /\ rk.cr[c].we.a = r0.cr[c].we.a /\ r0.cr[c].we.b = r0.cr[c].we.a
    /\ rk.cr[c].up = r0.cr[c].up /\ rk.cr[c].ed = r0.cr[c].ed /\ rk.cr[c].an = r0.cr[c].an
    /\ \A sv \in r0.cr[c].up.srvs :
          rk.cr[c].we.b_by_srv[sv] = TAdd(r0.cr[c].we.a_by_srv[sv], TScale(TSub(r1.cr[c].we.b_by_srv[sv], r0.cr[c].we.a_by_srv[sv]), k))
    /\ (RIsZero(r0.cr[c].an.exp) => rk.cr[c].we.b = r0.cr[c].we.b)
CheckK ==
  Done => LET f == F
              r0 == Evaluate(comps, f, Zero, A, lm, n)
              r1 == Evaluate(comps, f, One, A, lm, n)
              rk == Evaluate(comps, f, K, A, lm, n)
          IN /\ AffineIn(f, r0, r1, rk, K)
             /\ rk.bal.we_b = TAdd(r0.bal.we_a, TScale(TSub(r1.bal.we_b, r0.bal.we_a), K))

\* ---- C12 at model level (electricity): priority, bounds, effect of load matching
PrioOk(r) ==
  "ELECTRICIDAD" \in r.crs =>
    LET b == r.cr["ELECTRICIDAD"] IN \A t \in 1..n :
      LET upv == IF "EL_INSITU" \in b.up.srcs THEN b.up.usedJ["EL_INSITU"][t] ELSE Zero
          uch == IF "EL_COGEN" \in b.up.srcs THEN b.up.usedJ["EL_COGEN"][t] ELSE Zero
          pv == IF "EL_INSITU" \in b.up.srcs THEN b.up.prJ["EL_INSITU"][t] ELSE 0
      IN /\ (RPos(uch) /\ "EL_INSITU" \in b.up.srcs => pv < b.up.epus[t] /\ upv = RMul(b.up.fm[t], R(pv)))
         /\ RLeq(RAdd(upv, uch), R(b.up.epus[t]))
         /\ RLeq(<<1, 2>>, b.up.fm[t]) /\ RLeq(b.up.fm[t], One)
         /\ (~lm => b.up.fm[t] = One)
CheckPrio ==
  Done => LET f == F
              r == Evaluate(comps, f, K, A, lm, n)
              roff == Evaluate(comps, f, K, A, FALSE, n)
          IN /\ PrioOk(r)
             /\ \A c \in r.crs : \A t \in 1..n :
                  /\ RLeq(r.cr[c].up.used[t], roff.cr[c].up.used[t])
                  /\ RLeq(roff.cr[c].ed.del[t], r.cr[c].ed.del[t])

\* ---- C13 at model level: RER is a proper fraction and the perimeters are nested, for the
\* regulatory sets at k_exp = 0 (no weakening: the perimeter formulas of Balance!Evaluate are consistent)
CheckRer ==
  (Done /\ cfg.fac \in Locs) =>
     LET r == Evaluate(comps, F, Zero, A, lm, n) IN
     RPos(r.tot) =>
       /\ RLeq(Zero, r.rer) /\ RLeq(r.rer, One)
       /\ RLeq(Zero, r.rer_onst)
       /\ RLeq(r.rer_onst, r.rer_nrb)
       /\ RLeq(r.rer_nrb, r.rer)

\* ---- C08 at model level: Factors!Strip keeps every factor the evaluation of this building
\* looks up, so the outcome and the result are those of the full set
CheckStrip ==
  Done => LET f == F
              fs == Strip(f, comps)
              r == Evaluate(comps, f, K, A, lm, n)
              dd == CgnDerived(comps, fs)
              needed == CgnNeeded(comps) \cup UNION {r.cr[c].lookups : c \in r.crs}
          IN /\ \A key \in needed : Has2(fs, dd, key) /\ Find2(fs, dd, key) = Find2(f, CgnDerived(comps, f), key)
             /\ Keys(fs) \subseteq Keys(f)

Check ==
  Done => LET f == F
              r == Evaluate(comps, f, K, A, lm, n)
          IN Conservation(r) /\ Complete(f, r) /\ Emit(r)
=============================================================================
