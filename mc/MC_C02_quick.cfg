SPECIFICATION Spec
CONSTANTS
  Tier = "quick"
  MaxN = 2
  UaVals = {0, 1, 3}
  PvVals = {0, 1, 3}
  ChpVals = {0, 2}
INVARIANTS Check CheckK CheckPrio CheckRer
CHECK_DEADLOCK FALSE
