SPECIFICATION Spec
CONSTANTS
  Tier = "quick"
  MaxN = 2
  UaVals = {0, 1, 2, 3}
  PvVals = {0, 1, 2, 3}
  ChpVals = {0, 1, 2}
INVARIANTS Check CheckK CheckPrio CheckRer CheckStrip
CHECK_DEADLOCK FALSE
