------------------------------ MODULE MC_C07 ------------------------------
(***************************************************************************)
(* C07: the exponential family of factor files is enumerated completely.   *)
(* A file is ANY subset of a universe U of candidate lines in which every  *)
(* line carries a distinct value (so provenance is readable from the       *)
(* value; four of them coincide in part with the value that overwrites     *)
(* them), combined with user RED1 / RED2 given or not, plus a variant     *)
(* with a duplicated key.  TLC checks on spec/Factors.tla:                 *)
(*   Respect      user values survive, except the keys fixed by the method *)
(*   Provenance   step A export defaults = on-site supply factor, step B   *)
(*                export defaults = grid supply factor of the carrier      *)
(*   Precedence   RED1 / RED2: user > file > built-in default              *)
(*   Idempotent   Normalize o Normalize = Normalize                        *)
(*   Rejects      a carrier without grid supply factor <=> error           *)
(*   Complete     for every building shape over the carriers of the set,   *)
(*                every look-up of its evaluation is satisfied             *)
(* and emits one CASE per file (with its shapes) for the real library.     *)
(***************************************************************************)
EXTENDS Factors, Json

CONSTANTS USize, WithDup

VARIABLES ph, lines, red1, red2
vars == <<ph, lines, red1, red2>>

L(i, cr, src, dest, step) == Fac(cr, src, dest, step, <<100 + i, 200 + i, 300 + i>>)
\* lines whose value coincides IN PART with the value that overwrites them (the factors fixed by the method,
\* (1, 0, 0); the user's RED1): an overwrite that compares before writing must compare all three numbers
LV(v, cr, src, dest, step) == Fac(cr, src, dest, step, v)
U == <<
  L(1, "ELECTRICIDAD", "RED", "SUMINISTRO", "A"),
  LV(<<102, 0, 0>>, "ELECTRICIDAD", "INSITU", "SUMINISTRO", "A"),
  L(3, "ELECTRICIDAD", "INSITU", "A_RED", "A"),
  \* a user factor that is all zeros ("no credit for exports to non-EPB uses"): it is a value, not an absent factor
  LV(<<0, 0, 0>>, "ELECTRICIDAD", "INSITU", "A_NEPB", "B"),
  L(5, "ELECTRICIDAD", "COGEN", "A_RED", "A"),
  LV(<<1000, 0, 306>>, "EAMBIENTE", "RED", "SUMINISTRO", "A"),
  L(7, "EAMBIENTE", "INSITU", "A_RED", "A"),
  LV(<<501, 601, 312>>, "RED1", "RED", "SUMINISTRO", "A"),
  L(9, "GASNATURAL", "RED", "SUMINISTRO", "A"),
  L(10, "BIOMASA", "RED", "SUMINISTRO", "A"),
  \* a line of a fuel that is NOT its grid supply factor: with it and without line 9 the set is unusable
  L(11, "GASNATURAL", "INSITU", "SUMINISTRO", "A"),
  L(8, "TERMOSOLAR", "INSITU", "A_RED", "B"),
  L(13, "ELECTRICIDAD", "INSITU", "A_NEPB", "A"),
  L(14, "ELECTRICIDAD", "INSITU", "A_RED", "B"),
  LV(<<1000, 215, 0>>, "EAMBIENTE", "INSITU", "SUMINISTRO", "A"),
  L(16, "EAMBIENTE", "INSITU", "A_NEPB", "B") >>
UserRed1 == <<501, 601, 701>>
\* (the user may declare a network without any primary energy: zeros are a value too)
UserRed2 == <<0, 0, 0>>
\* a second line with the key of line 9 and another value: the first one must win
Dup == Fac("GASNATURAL", "RED", "SUMINISTRO", "A", <<901, 902, 903>>)

Init == ph = 0 /\ lines = <<>> /\ red1 = NoUser /\ red2 = NoUser
\* the subset is chosen in two actions (low and high half of U) to spread the work over the workers
Half == USize \div 2
RECURSIVE Pick(_, _)
Pick(S, i) == IF i > USize THEN <<>> ELSE (IF i \in S THEN <<U[i]>> ELSE <<>>) \o Pick(S, i + 1)
PickLow ==
  /\ ph = 0 /\ ph' = 1
  /\ \E S \in SUBSET (1..Half) : lines' = Pick(S, 1)
  /\ UNCHANGED <<red1, red2>>
PickHigh ==
  /\ ph = 1 /\ ph' = 2
  /\ \E S \in SUBSET ((Half + 1)..USize) : \E d \in (IF WithDup THEN BOOLEAN ELSE {FALSE}) :
        \* the order of the lines of a file is free: the files with an even number of lines are written in reverse order
        \* (export lines before supply lines, the duplicate first ...)
        LET all == lines \o Pick(S, Half + 1) \o (IF d THEN <<Dup>> ELSE <<>>) IN
        lines' = IF Len(all) % 2 = 0 THEN [i \in 1..Len(all) |-> all[Len(all) + 1 - i]] ELSE all
  /\ red1' \in {NoUser, UserRed1} /\ red2' \in {NoUser, UserRed2}
Next == PickLow \/ PickHigh
Spec == Init /\ [][Next]_vars

Done == ph = 2
Res == FromList(lines, red1, red2)
Forced == {Key("EAMBIENTE", "INSITU", "SUMINISTRO", "A"), Key("EAMBIENTE", "RED", "SUMINISTRO", "A"),
           Key("TERMOSOLAR", "INSITU", "SUMINISTRO", "A"), Key("TERMOSOLAR", "RED", "SUMINISTRO", "A"),
           Key("ELECTRICIDAD", "INSITU", "SUMINISTRO", "A")}
KRed1 == Key("RED1", "RED", "SUMINISTRO", "A")
KRed2 == Key("RED2", "RED", "SUMINISTRO", "A")
Usable(F) == \A c \in CarriersOf(F) \ {"EAMBIENTE", "TERMOSOLAR"} : Has(F, Key(c, "RED", "SUMINISTRO", "A"))

Rejects == Done => (Res.ok <=> Usable(lines))

Respect ==
  (Done /\ Res.ok) =>
     \A i \in 1..Len(lines) :
        LET k == KeyOf(lines[i]) IN
        (FindIdx(lines, k, 1) = i /\ k \notin Forced /\ ~(k = KRed1 /\ red1 # NoUser) /\ ~(k = KRed2 /\ red2 # NoUser))
           => FindM(Res.f, k) = lines[i].m

Provenance ==
  (Done /\ Res.ok) =>
     \A c \in {"ELECTRICIDAD", "EAMBIENTE", "TERMOSOLAR"} : \A d \in {"A_RED", "A_NEPB"} :
        /\ (~Has(lines, Key(c, "INSITU", d, "A")) /\ Has(Res.f, Key(c, "INSITU", "SUMINISTRO", "A")))
              => FindM(Res.f, Key(c, "INSITU", d, "A")) = FindM(Res.f, Key(c, "INSITU", "SUMINISTRO", "A"))
        /\ (~Has(lines, Key(c, "INSITU", d, "B")) /\ Has(Res.f, Key(c, "RED", "SUMINISTRO", "A")))
              => FindM(Res.f, Key(c, "INSITU", d, "B")) = FindM(Res.f, Key(c, "RED", "SUMINISTRO", "A"))
        /\ (c \in {"EAMBIENTE", "TERMOSOLAR"} => FindM(Res.f, Key(c, "INSITU", "SUMINISTRO", "A")) = Ren1
                                               /\ FindM(Res.f, Key(c, "RED", "SUMINISTRO", "A")) = Ren1)
        /\ (c = "ELECTRICIDAD" /\ c \in CarriersOf(lines) => FindM(Res.f, Key(c, "INSITU", "SUMINISTRO", "A")) = Ren1)

Precedence ==
  (Done /\ Res.ok) =>
     /\ FindM(Res.f, KRed1) = (IF red1 # NoUser THEN red1 ELSE IF Has(lines, KRed1) THEN FindM(lines, KRed1) ELSE DefaultRedM)
     /\ FindM(Res.f, KRed2) = (IF red2 # NoUser THEN red2 ELSE IF Has(lines, KRed2) THEN FindM(lines, KRed2) ELSE DefaultRedM)

Idempotent ==
  (Done /\ Res.ok) => LET again == Normalize(Res.f, DefaultRedM, DefaultRedM) IN again.ok /\ again.f = Res.f

\* ---- building shapes over the carriers of a prepared set
V1 == <<2>>
Fuels(F) == CarriersOf(F) \ {"ELECTRICIDAD", "EAMBIENTE", "TERMOSOLAR"}
HasEl(F) == "ELECTRICIDAD" \in CarriersOf(F)
RECURSIVE SetToSeqsC(_)
SetToSeqsC(S) == IF S = {} THEN {<<>>} ELSE LET x == CHOOSE x \in S : TRUE IN {<<x>> \o q : q \in SetToSeqsC(S \ {x})}
Uses(F) == LET cs == CarriersOf(F) \cup {"EAMBIENTE", "TERMOSOLAR"}
               sq == CHOOSE q \in SetToSeqsC(cs) : TRUE
           IN [i \in 1..Len(sq) |-> Used(i, sq[i], "CAL", V1)]
Shapes(F) ==
  LET base == Uses(F)
      amb == <<Prod(1, "EAMBIENTE", <<9>>), Used(0, "EAMBIENTE", "NEPB", <<1>>), Prod(2, "TERMOSOLAR", <<9>>)>>
      pv == <<Prod(0, "EL_INSITU", <<7>>), Used(0, "ELECTRICIDAD", "NEPB", <<1>>)>>
      chp(fuel) == <<Prod(9, "EL_COGEN", <<8>>), Used(9, fuel, "COGEN", <<20>>), Used(0, "ELECTRICIDAD", "NEPB", <<1>>)>>
  IN <<base, base \o amb>>
     \o (IF HasEl(F) THEN <<base \o pv>> ELSE <<>>)
     \o (IF HasEl(F) /\ Fuels(F) # {} THEN <<base \o chp(CHOOSE f \in Fuels(F) : TRUE), base \o pv \o chp(CHOOSE f \in Fuels(F) : TRUE)>> ELSE <<>>)

Complete ==
  (Done /\ Res.ok) =>
     \A i \in 1..Len(Shapes(Res.f)) :
        Outcome(Shapes(Res.f)[i], Res.f, <<1, 2>>, One, FALSE, 1) = "Ok"

Emit ==
  Done => PrintT(<<"CASE", ToJson([fac |-> [mode |-> "str", lines |-> lines]
                                       @@ (IF red1 = NoUser THEN <<>> ELSE [red1 |-> red1])
                                       @@ (IF red2 = NoUser THEN <<>> ELSE [red2 |-> red2]),
                                   shapes |-> IF Res.ok THEN Shapes(Res.f) ELSE <<>>])>>)
=============================================================================
