SPECIFICATION Spec
CONSTANTS
  USize = 10
  WithDup = TRUE
INVARIANTS Rejects Respect Provenance Precedence Idempotent Complete Emit
CHECK_DEADLOCK FALSE
