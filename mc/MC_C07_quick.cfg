SPECIFICATION Spec
CONSTANTS
  USize = 11
  WithDup = FALSE
INVARIANTS Rejects Respect Provenance Precedence Idempotent Complete Emit
CHECK_DEADLOCK FALSE
