SPECIFICATION Spec
CONSTANTS
  USize = 16
  WithDup = TRUE
INVARIANTS Rejects Respect Provenance Precedence Idempotent Complete Emit
CHECK_DEADLOCK FALSE
