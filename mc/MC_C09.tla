------------------------------ MODULE MC_C09 ------------------------------
(***************************************************************************)
(* C09 / C11 at model level on the MC_C02 lattice:                         *)
(*   Permute(pi), all permutations of the steps: annual results equal,     *)
(*      per-step vectors permuted;                                         *)
(*   Subdivide(m), m in SubVals, in the integral form                      *)
(*      Evaluate(Repeat(C, m)) = Evaluate(ScaleInt(C, m)) on annual fields *)
(*      (load matching included: the ratio production/use of a sub-step    *)
(*      is the ratio of its step);                                         *)
(*   ScaleInt(c): every annual energy field of Evaluate is multiplied by   *)
(*      c, ratios and f_match unchanged (homogeneity of degree 1).         *)
(* The specification has no absolute thresholds, so these hold exactly.    *)
(***************************************************************************)
EXTENDS MC_C02, Session

CONSTANTS SubVals, ScaleVals

Ev(C, nn) == Evaluate(C, F, K, A, lm, nn)

TScaleR(x, c) == TScale(x, R(c))
ScaledAnnual(r, c) ==
  \* what AnnualOf must be for the c-fold building: energies times c, ratios equal
  [rer |-> r.rer, rer_nrb |-> r.rer_nrb, rer_onst |-> r.rer_onst,
   we_a |-> TScaleR(r.bal.we_a, c), we_b |-> TScaleR(r.bal.we_b, c),
   del_an |-> RMul(r.bal.del_an, R(c)), exp_an |-> RMul(r.bal.exp_an, R(c)),
   del_grid |-> RMul(r.bal.del_grid, R(c)), prod_an |-> RMul(r.bal.prod_an, R(c))]
KeyFields(r) ==
  [rer |-> r.rer, rer_nrb |-> r.rer_nrb, rer_onst |-> r.rer_onst, we_a |-> r.bal.we_a, we_b |-> r.bal.we_b,
   del_an |-> r.bal.del_an, exp_an |-> r.bal.exp_an, del_grid |-> r.bal.del_grid, prod_an |-> r.bal.prod_an]

CheckLayout ==
  Done =>
    LET r == Ev(comps, n) IN
    /\ \A pi \in Perms(n) :
         LET rp == Ev(Permute(comps, pi), n) IN
         /\ AnnualOf(rp) = AnnualOf(r)
         /\ \A c \in r.crs : \A t \in 1..n :
              /\ rp.cr[c].up.used[t] = r.cr[c].up.used[pi[t]]
              /\ rp.cr[c].ed.del[t] = r.cr[c].ed.del[pi[t]]
              /\ rp.cr[c].up.fm[t] = r.cr[c].up.fm[pi[t]]
    /\ \A m \in SubVals :
         LET rs == Ev(Repeat(comps, m), m * n)
             rm == Ev(ScaleInt(comps, m), n)
         IN /\ AnnualOf(rs) = AnnualOf(rm)
            /\ \A c \in r.crs : \A t \in 1..n : \A j \in 1..m :
                 /\ RMul(rs.cr[c].up.used[(t - 1) * m + j], R(m)) = rm.cr[c].up.used[t]
                 /\ rs.cr[c].up.fm[(t - 1) * m + j] = rm.cr[c].up.fm[t]
    /\ \A c \in ScaleVals : KeyFields(Ev(ScaleInt(comps, c), n)) = ScaledAnnual(r, c)
=============================================================================
