SPECIFICATION Spec
CONSTANTS
  Tier = "quick"
  MaxN = 2
  UaVals = {1, 3}
  PvVals = {0, 3}
  ChpVals = {0, 2}
  SubVals = {2, 3}
  ScaleVals = {3}
INVARIANTS CheckLayout
CHECK_DEADLOCK FALSE
