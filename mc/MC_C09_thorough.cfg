SPECIFICATION Spec
CONSTANTS
  Tier = "quick"
  MaxN = 3
  UaVals = {1, 3}
  PvVals = {0, 1, 3}
  ChpVals = {0, 2}
  SubVals = {2, 3, 4}
  ScaleVals = {2, 3, 7}
INVARIANTS CheckLayout
CHECK_DEADLOCK FALSE
