------------------------------ MODULE MC_C10 ------------------------------
(***************************************************************************)
(* C10 at model level: from each base file TLC explores every sequence of  *)
(* rewriting actions up to Depth (spec/TextFormat.tla) and checks, as an   *)
(* action property on every step, that the rewriting preserves what the    *)
(* file declares (Denote, up to the renaming of ids for RenameIds) and, as *)
(* an invariant, that the normalised declaration (closed form of           *)
(* Components, summed per tag tuple) is the one of the base file - so the  *)
(* evaluation, which only reads per-tag sums, cannot change.  Every        *)
(* reachable file is emitted for replay on the real parser.  The schedule  *)
(* part of C10 (order of ids and carriers) is MC_Comp!Confluent and the    *)
(* repeated evaluations of the implementation check.                       *)
(***************************************************************************)
EXTENDS TextFormat, Components, Json

CONSTANTS Depth, Positions

VARIABLES base, file, d, renamed
vars == <<base, file, d, renamed>>

Bases == <<
  \* heat pump with declared partial ambient production, PV, two services
  << Used(1, "ELECTRICIDAD", "CAL", <<4, 6>>), Used(1, "EAMBIENTE", "CAL", <<8, 12>>), Prod(1, "EAMBIENTE", <<2, 20>>),
     Used(0, "ELECTRICIDAD", "ILU", <<3, 3>>), Prod(0, "EL_INSITU", <<6, 2>>), Need("CAL", <<10, 16>>) >>,
  \* cogeneration, gas boiler, non-EPB use, id 0 lines
  << Used(0, "GASNATURAL", "ACS", <<10, 10>>), Prod(2, "EL_COGEN", <<4, 2>>), Used(2, "GASNATURAL", "COGEN", <<12, 8>>),
     Used(0, "ELECTRICIDAD", "NEPB", <<2, 2>>), Used(0, "ELECTRICIDAD", "VEN", <<2, 6>>) >>,
  \* two systems with auxiliaries (single service each), solar thermal, negative id
  << Used(-1, "TERMOSOLAR", "ACS", <<4, 4>>), Used(-1, "GASNATURAL", "ACS", <<6, 2>>), Aux(-1, "NEPB", <<2, 2>>),
     Used(3, "ELECTRICIDAD", "REF", <<8, 0>>), Aux(3, "NEPB", <<0, 2>>), Out(3, "REF", <<-24, 0>>) >>,
  \* multi-service system with auxiliaries and outputs, plus legacy id 0 production
  \* (the output line of one service first: it is at one of the positions the rewriting actions work on)
  << Out(1, "CAL", <<8, 3>>), Used(1, "BIOMASA", "CAL", <<10, 4>>), Used(1, "BIOMASA", "ACS", <<2, 2>>), Out(1, "ACS", <<2, 1>>),
     Aux(1, "NEPB", <<4, 2>>), Prod(0, "EL_INSITU", <<2, 2>>), Used(0, "ELECTRICIDAD", "ILU", <<6, 6>>) >>,
  \* two heat pumps, each using ambient heat for two services, nothing declared: the completion is per system,
  \* whatever the order in which the lines of the two systems are interleaved
  << Used(1, "EAMBIENTE", "CAL", <<6, 2>>), Used(1, "EAMBIENTE", "ACS", <<2, 2>>), Used(2, "EAMBIENTE", "CAL", <<4, 8>>),
     Used(2, "TERMOSOLAR", "ACS", <<2, 4>>), Used(2, "EAMBIENTE", "ACS", <<2, 0>>), Used(1, "ELECTRICIDAD", "CAL", <<4, 2>>),
     Used(2, "ELECTRICIDAD", "CAL", <<2, 4>>) >> >>

\* two of the base files carry metadata (first lines of the file, as the program writes them)
BaseFile(b) == IF b \in {1, 4} THEN WithMeta(FileOf(Bases[b]), <<MetaLine("CTE_AREAREF", "20"), MetaLine("Nota", "texto libre")>>)
               ELSE FileOf(Bases[b])
Init == \E b \in 1..Len(Bases) : base = b /\ file = BaseFile(b) /\ d = 0 /\ renamed = FALSE

Pos(f) == {i \in 1..Len(f.lines) : i \in Positions \/ i = Len(f.lines)}
Rewrite ==
  /\ d < Depth /\ d' = d + 1 /\ UNCHANGED base
  /\ \/ \E i \in Pos(file) : i < Len(file.lines) /\ file' = SwapLines(file, i) /\ UNCHANGED renamed
     \/ \E i \in Pos(file) : IsCompLine(file, i) /\ file' = SplitLine(file, i) /\ UNCHANGED renamed
     \/ \E i \in Pos(file) : IsCompLine(file, i) /\ file.lines[i].c.kind \in {"PROD", "OUT"} /\ file' = SplitSigned(file, i) /\ UNCHANGED renamed
     \/ ~renamed /\ file' = RenameIds(file) /\ renamed' = TRUE
     \/ \E i \in Pos(file) : IsCompLine(file, i) /\ file.lines[i].note = "" /\ file' = AddNote(file, i) /\ UNCHANGED renamed
     \/ \E i \in Pos(file) : file' = AddBlank(file, i) /\ UNCHANGED renamed
     \/ \E i \in Pos(file) : file' = AddRemark(file, i) /\ UNCHANGED renamed
     \/ file.lines[1].t # "header" /\ file' = AddHeader(file) /\ UNCHANGED renamed
     \/ ~file.bom /\ file' = AddBom(file) /\ UNCHANGED renamed
     \/ \E i \in Pos(file) : CanPad(file, i) /\ ~file.lines[i].pad /\ file' = PadWhitespace(file, i) /\ UNCHANGED renamed
     \/ \E i \in 1..Len(file.lines) : CanOmitId(file.lines[i]) /\ file' = ToggleId0(file, i) /\ UNCHANGED renamed
Next == Rewrite
Spec == Init /\ [][Next]_vars

\* Denote up to the renaming of ids
UnRename(tg) == <<tg[1], IF tg[1] = "NEED" THEN tg[2] ELSE (7 - tg[2]) \div 3, tg[3], tg[4], tg[5]>>
DenoteBase(f, ren) ==
  LET dn == Denote(f) IN
  IF ren THEN [tg \in {UnRename(x) : x \in DOMAIN dn} |-> dn[CHOOSE x \in DOMAIN dn : UnRename(x) = tg]] ELSE dn
DenotationPreserved == DenoteBase(file, renamed) = Denote(BaseFile(base)) /\ MetaOf(file) = MetaOf(BaseFile(base))

\* the normalised declaration: closed form of the normalisation, summed per tag tuple
RECURSIVE FoldAuxC(_, _)
MinOfC(S) == CHOOSE x \in S : \A y \in S : x <= y
FoldAuxC(C, ids) ==
  IF ids = {} THEN [ok |-> TRUE, data |-> C]
  ELSE LET id == MinOfC(ids)  r == CHOOSE r \in AuxIdOp(C, id) : TRUE
       IN IF ~r.ok THEN r ELSE FoldAuxC(r.data, ids \ {id})
SeqOfSetC(S) == CHOOSE q \in SetToSeqs(S) : TRUE
CanonC(C) ==
  LET c1 == C \o SeqOfSetC(Completion(C, "EAMBIENTE")) \o SeqOfSetC(Completion(C, "TERMOSOLAR")) IN
  FoldAuxC(c1, AuxIds(c1))
NormDenote(f, ren) ==
  LET C0 == SelectSeq(CompsOf(f), LAMBDA x : x.kind # "NEED")
      k == CanonC(ToRat(C0))
      C == k.data
      tg(x) == IF ren THEN UnRename(TagOf(x)) ELSE TagOf(x)
      tags == {tg(C[i]) : i \in 1..Len(C)}
  IN [ok |-> k.ok,
      sums |-> [x \in tags |-> [t \in 1..NSteps(C) |-> SumSet(LAMBDA i : C[i].v[t], {i \in 1..Len(C) : tg(C[i]) = x})]]]
NormalisedDeclarationPreserved == NormDenote(file, renamed) = NormDenote(BaseFile(base), FALSE)

Emit == PrintT(<<"CASE", ToJson([base |-> base, depth |-> d, src |-> file])>>)
=============================================================================
