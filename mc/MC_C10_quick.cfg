SPECIFICATION Spec
CONSTANTS
  Depth = 2
  Positions = {1, 2, 3}
INVARIANTS DenotationPreserved NormalisedDeclarationPreserved Emit
CHECK_DEADLOCK FALSE
