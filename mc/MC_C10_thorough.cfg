SPECIFICATION Spec
CONSTANTS
  Depth = 3
  Positions = {1, 2, 3}
INVARIANTS DenotationPreserved NormalisedDeclarationPreserved Emit
CHECK_DEADLOCK FALSE
