------------------------------ MODULE MC_C14 ------------------------------
(***************************************************************************)
(* C14 at model level: Session history  Evaluate ; AddPv(delta) ; Evaluate *)
(* on the MC_C02 lattice.  TLC enumerates the buildings (regulatory factor *)
(* sets only) and every non-zero increment delta \in [steps -> DeltaVals], *)
(* checks monotonicity on the specification for k_exp in {0, 1/2, 1} and   *)
(* emits the pairs for replay on the real library.                         *)
(*                                                                         *)
(* Known design-level finding F1 (named weakening KF_C14_RenewableCgn):    *)
(* extra PV displaces cogenerated electricity whose fuel is a nearby       *)
(* renewable carrier into export, which lowers ren more than nren.         *)
(***************************************************************************)
EXTENDS MC_C02

CONSTANT DeltaVals
VARIABLE delta
vars14 == <<vars, delta>>

Init14 == Init /\ delta = <<>>
PickDelta ==
  /\ ph = 3 /\ ph' = 4 /\ cfg.fac \in Locs
  /\ delta' \in ([1..n -> DeltaVals] \ {[t \in 1..n |-> 0]})
  \* with load matching stay on the ratio lattice (exact arithmetic within 32 bits)
  /\ (lm => \A t \in 1..n :
             RatioOK(delta'[t] + ISumSet(LAMBDA i : comps[i].v[t], {i \in Idx(comps) : IsProd(comps[i]) /\ CarrierOf(comps[i]) = "ELECTRICIDAD"}),
                     ISumSet(LAMBDA i : comps[i].v[t], {i \in Idx(comps) : IsEpbUse(comps[i]) /\ CarrierOf(comps[i]) = "ELECTRICIDAD"})))
  /\ UNCHANGED <<n, lm, shape, part, comps, cfg>>
Next14 == (Next /\ UNCHANGED delta) \/ PickDelta
Spec14 == Init14 /\ [][Next14]_vars14

Plus == Append(comps, Prod(0, "EL_INSITU", delta))
KF_C14_RenewableCgn == \E i \in Idx(comps) : IsCgnUse(comps[i]) /\ comps[i].cr \in Nearby

Mono(k) ==
  LET f == F
      b == Evaluate(comps, f, k, A, lm, n)
      p == Evaluate(Plus, f, k, A, lm, n)
  IN /\ RLeq(p.bal.we_a[2], b.bal.we_a[2]) /\ RLeq(p.bal.we_b[2], b.bal.we_b[2])
     /\ RLeq(p.bal.we_a[3], b.bal.we_a[3]) /\ RLeq(p.bal.we_b[3], b.bal.we_b[3])
     /\ RLeq(p.bal.del_grid, b.bal.del_grid)
     /\ (k = Zero /\ RPos(b.tot) /\ RPos(p.tot) => KF_C14_RenewableCgn \/ RLeq(b.rer, p.rer))

Run(role, k, d) == IF role = "b" THEN [tag |-> "b", role |-> "b", kexp |-> k]
                   ELSE [tag |-> "p", role |-> "p", kexp |-> k, addpv |-> d]
CheckMono ==
  ph = 4 => /\ Mono(Zero) /\ Mono(<<1, 2>>) /\ Mono(One)
            /\ PrintT(<<"CASE", ToJson([src |-> [comps |-> comps], fac |-> FacCase(cfg.fac),
                                         kexp |-> cfg.k, area |-> cfg.area, lm |-> lm, delta |-> delta])>>)
=============================================================================
