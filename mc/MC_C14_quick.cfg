SPECIFICATION Spec14
CONSTANTS
  Tier = "quick"
  MaxN = 2
  UaVals = {1, 3}
  PvVals = {0, 1}
  ChpVals = {0, 2}
  DeltaVals = {0, 2}
INVARIANTS CheckMono
CHECK_DEADLOCK FALSE
