SPECIFICATION Spec14
CONSTANTS
  Tier = "quick"
  MaxN = 2
  UaVals = {0, 1, 3}
  PvVals = {0, 1, 3}
  ChpVals = {0, 2}
  DeltaVals = {0, 1, 2, 3}
INVARIANTS CheckMono
CHECK_DEADLOCK FALSE
