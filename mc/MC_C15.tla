------------------------------ MODULE MC_C15 ------------------------------
(***************************************************************************)
(* C15 at model level.  TLC enumerates DHW supplies - any combination of   *)
(* direct electric, PV, heat pump (electricity + ambient heat), solar      *)
(* thermal, gas boiler, district heat, biomass with or without declared    *)
(* output, densified biomass - with other services (electric and not),     *)
(* non-EPB use, auxiliaries on the DHW system, a cogenerator fed by a       *)
(* nearby fuel, a distant one or both, two k_exp, one or two               *)
(* steps; the DHW demand is either CONSISTENT (the heat the supply         *)
(* delivers: efficiency 1 for electricity, ambient, solar and district     *)
(* heat, 9/10 for gas, 4/5 for biomass) or one of the documented           *)
(* non-computable classes.  Checked on Acs!AcsFraction:                    *)
(*   consistent => a fraction in [0, 1], equal to the closed form          *)
(*                 renewable heat / demand of the mix;                     *)
(*   unchanged by non-EPB use, by other services' non-electric use, by     *)
(*   k_exp and by scaling the building;                                    *)
(*   no demand / zero demand / biomass next to a non-nearby carrier        *)
(*   without declared output => an error, not a number.                    *)
(***************************************************************************)
EXTENDS Acs, Factors, Regulatory, Json

CONSTANT MaxN
VARIABLES ph, n, mix, extra, comps, demand
vars == <<ph, n, mix, extra, comps, demand>>

F == FromList(LocBase("PENINSULA"), <<500, 500, 100>>, NoUser).f     \* RED1 half renewable
Const(x) == [t \in 1..n |-> x]
Init == ph = 0 /\ n = 0 /\ mix = <<>> /\ extra = <<>> /\ comps = <<>> /\ demand = "-"

PickMix ==
  /\ ph = 0 /\ ph' = 1 /\ n' \in 1..MaxN
  /\ \E el \in BOOLEAN, pv \in BOOLEAN, hp \in BOOLEAN, ts \in BOOLEAN, gas \in BOOLEAN, red \in BOOLEAN, bio \in {"no", "out", "noout"}, dbio \in BOOLEAN :
       /\ (el \/ hp \/ ts \/ gas \/ red \/ bio # "no" \/ dbio)
       /\ mix' = [el |-> el, pv |-> pv, hp |-> hp, ts |-> ts, gas |-> gas, red |-> red, bio |-> bio, dbio |-> dbio]
  /\ UNCHANGED <<extra, comps, demand>>

\* heat delivered for DHW by the supply, per step (the consistent demand), times 10 to stay integral
Delivered10(m) == (IF m.el THEN 40 ELSE 0) + (IF m.hp THEN 20 + 60 ELSE 0) + (IF m.ts THEN 30 ELSE 0) + (IF m.gas THEN 90 ELSE 0)
                  + (IF m.red THEN 50 ELSE 0) + (IF m.bio # "no" THEN 80 ELSE 0) + (IF m.dbio THEN 40 ELSE 0)
\* every value is ten times the nominal one (so that 9/10 and 4/5 efficiencies stay integral)
Supply(m) ==
  (IF m.el THEN <<Used(1, "ELECTRICIDAD", "ACS", Const(40))>> ELSE <<>>)
  \o (IF m.hp THEN <<Used(2, "ELECTRICIDAD", "ACS", Const(20)), Used(2, "EAMBIENTE", "ACS", Const(60)), Prod(2, "EAMBIENTE", Const(60))>> ELSE <<>>)
  \o (IF m.ts THEN <<Used(3, "TERMOSOLAR", "ACS", Const(30)), Prod(3, "TERMOSOLAR", Const(30))>> ELSE <<>>)
  \o (IF m.gas THEN <<Used(4, "GASNATURAL", "ACS", Const(100))>> ELSE <<>>)
  \o (IF m.red THEN <<Used(5, "RED1", "ACS", Const(50))>> ELSE <<>>)
  \o (IF m.bio # "no" THEN <<Used(6, "BIOMASA", "ACS", Const(100))>> \o (IF m.bio = "out" THEN <<Out(6, "ACS", Const(80))>> ELSE <<>>) ELSE <<>>)
  \o (IF m.dbio THEN <<Used(7, "BIOMASADENSIFICADA", "ACS", Const(50)), Out(7, "ACS", Const(40))>> ELSE <<>>)
  \o (IF m.pv THEN <<Prod(0, "EL_INSITU", [t \in 1..n |-> IF t = 1 THEN 30 ELSE 100])>> ELSE <<>>)

PickExtra ==
  /\ ph = 1 /\ ph' = 2
  /\ \E oel \in BOOLEAN, ogas \in BOOLEAN, nep \in BOOLEAN, aux \in BOOLEAN, bcal \in BOOLEAN, dm \in {"consistent", "absent", "zero"},
        chp \in {"no", "bio", "gas", "mixed"}, lsc \in BOOLEAN, oamb \in BOOLEAN, zel \in BOOLEAN, b2 \in {"no", "out", "noout"}, odm \in BOOLEAN :
       \* the building also declares its heating and cooling demands, BEFORE the DHW demand (they are other services' business)
       /\ (odm => dm = "consistent" /\ ~zel /\ ~oamb /\ b2 = "no" /\ chp \in {"no", "gas"})
       \* a SECOND boiler of the same kind of biomass for DHW (another system id), with or without declared output
       /\ (b2 # "no" => mix.bio # "no" /\ ~bcal /\ chp = "no" /\ ~zel /\ ~oamb /\ ~lsc /\ ~aux)
       \* an idle DHW electricity line (all zeros) next to a biomass supply: it is no DHW supply at all
       /\ (zel => ~mix.el /\ ~mix.hp /\ ~aux /\ (mix.bio # "no" \/ mix.dbio) /\ chp = "no" /\ ~oamb /\ ~bcal)
       \* the DHW heat pump's ambient heat may carry the low-SCOP tag; another service's heat pump may carry it too
       /\ (lsc => mix.hp) /\ (oamb => ~ogas /\ ~bcal /\ chp = "no")
       /\ (aux => mix.el \/ mix.hp)
       \* a cogenerator whose electricity reaches the DHW electricity use: fed by a nearby fuel, a distant one, or both
       /\ (chp # "no" => (mix.el \/ mix.hp) /\ ~bcal /\ ~ogas)
       \* (the two-fuel cogenerator only next to supplies without further odd denominators: 32-bit exact arithmetic)
       /\ (chp = "mixed" => mix.bio = "no" /\ ~mix.dbio /\ ~mix.red)
       \* the biomass boilers may also heat (another service of the same system, with its own declared output)
       /\ (bcal => mix.bio = "out" \/ mix.dbio)
       /\ extra' = [oel |-> oel, ogas |-> ogas, nep |-> nep, aux |-> aux, bcal |-> bcal, chp |-> chp, lsc |-> lsc, oamb |-> oamb, zel |-> zel, b2 |-> b2, odm |-> odm]
       /\ demand' = dm
       /\ comps' = (IF lsc THEN [i \in 1..Len(Supply(mix)) |-> IF Supply(mix)[i].kind = "USED" /\ Supply(mix)[i].cr = "EAMBIENTE"
                                                                THEN [Supply(mix)[i] EXCEPT !.cm = LowScopTag] ELSE Supply(mix)[i]]
                     ELSE Supply(mix))
            \o (IF oamb THEN <<[Used(12, "EAMBIENTE", "CAL", Const(50)) EXCEPT !.cm = LowScopTag], Prod(12, "EAMBIENTE", Const(50)),
                                Used(12, "ELECTRICIDAD", "CAL", Const(20))>> ELSE <<>>)
            \* (another service's electricity, with another profile than the DHW electricity: the PV a step leaves for DHW
            \* is decided step by step)
            \o (IF oel THEN <<Used(8, "ELECTRICIDAD", "ILU", [t \in 1..n |-> IF t = 1 THEN 120 ELSE 20])>> ELSE <<>>)
            \o (IF ogas THEN <<Used(9, "GASNATURAL", "CAL", Const(70))>> ELSE <<>>)
            \o (IF bcal /\ mix.bio = "out" THEN <<Used(6, "BIOMASA", "CAL", Const(30)), Out(6, "CAL", Const(25))>> ELSE <<>>)
            \o (IF bcal /\ mix.dbio THEN <<Used(7, "BIOMASADENSIFICADA", "CAL", Const(20)), Out(7, "CAL", Const(15))>> ELSE <<>>)
            \o (IF zel THEN <<Used(11, "ELECTRICIDAD", "ACS", Const(0))>> ELSE <<>>)
            \o (IF b2 # "no" THEN <<Used(13, "BIOMASA", "ACS", Const(50))>> \o (IF b2 = "out" THEN <<Out(13, "ACS", Const(40))>> ELSE <<>>) ELSE <<>>)
            \o (IF nep THEN <<Used(0, "ELECTRICIDAD", "NEPB", Const(50))>> ELSE <<>>)
            \o (IF chp = "no" THEN <<>> ELSE <<Prod(10, "EL_COGEN", Const(30))>>)
            \o (IF chp = "bio" THEN <<Used(10, "BIOMASA", "COGEN", Const(80))>> ELSE <<>>)
            \o (IF chp = "gas" THEN <<Used(10, "GASNATURAL", "COGEN", Const(80))>> ELSE <<>>)
            \o (IF chp = "mixed" THEN <<Used(10, "BIOMASA", "COGEN", Const(50)), Used(10, "GASNATURAL", "COGEN", Const(40))>> ELSE <<>>)
            \o (IF aux THEN <<Aux(IF mix.el THEN 1 ELSE 2, "ACS", Const(10))>> ELSE <<>>)
            \o (IF odm THEN <<Need("CAL", Const(70)), Need("REF", Const(-30))>> ELSE <<>>)
            \o (IF dm = "absent" THEN <<>> ELSE <<Need("ACS", Const(IF dm = "zero" THEN 0 ELSE Delivered10(mix) + (IF b2 # "no" THEN 40 ELSE 0)))>>)
  /\ UNCHANGED <<n, mix>>
Next == PickMix \/ PickExtra
Spec == Init /\ [][Next]_vars

Done == ph = 2
Ev(C, k) == Evaluate(C, F, k, One, FALSE, n)
A(C, k) == AcsFraction(C, F, Ev(C, k), LowScopOf(C))
MapV(C, f(_)) == [i \in 1..Len(C) |-> [C[i] EXCEPT !.v = f(C[i].v)]]
Without(C, P(_)) == SelectSeq(C, LAMBDA x : ~P(x))

\* the mix mixes biomass with a carrier that is not nearby and has no declared output for it
NonComputable == (mix.bio = "noout" \/ extra.b2 = "noout") /\ (mix.gas \/ mix.el \/ mix.hp \/ mix.dbio)
\* renewable heat of the consistent supply per step, x10: ambient, solar, district (1/2), biomass, PV share of DHW electricity
Computable == demand = "consistent" /\ ~NonComputable

InRange == (Done /\ Computable) => LET a == A(comps, Zero) IN a.ok /\ RLeq(Zero, a.v) /\ RLeq(a.v, One)
ErrorClasses ==
  Done => LET a == A(comps, Zero) IN
          /\ (demand = "absent" => ~a.ok)
          /\ (demand = "zero" => ~a.ok)
          /\ (demand = "consistent" /\ NonComputable => ~a.ok)
Invariances ==
  (Done /\ Computable) =>
     LET a == A(comps, Zero) IN
     /\ A(comps, One) = a                                                              \* k_exp
     /\ A(MapV(comps, LAMBDA v : [t \in 1..Len(v) |-> 3 * v[t]]), Zero) = a             \* scaling
     /\ A(Without(comps, LAMBDA x : IsUsed(x) /\ x.srv = "NEPB"), Zero) = a             \* non-EPB use
     /\ A(Without(comps, LAMBDA x : IsUsed(x) /\ x.srv = "CAL" /\ x.cr # "ELECTRICIDAD"), Zero) = a   \* other services' non-electric use
\* closed forms of the canonical mixes without PV and without auxiliaries
BioFrac == Norm(1003, 1037)
DBioFrac == Norm(1028, 1113)
ClosedForm ==
  (Done /\ Computable /\ ~mix.pv /\ ~extra.aux /\ extra.chp = "no" /\ ~extra.lsc) =>
     A(comps, Zero).v = RDiv(RAdd(RAdd(R((IF mix.hp THEN 60 ELSE 0) + (IF mix.ts THEN 30 ELSE 0)), Norm(IF mix.red THEN 50 ELSE 0, 2)),
                                  RAdd(RMul(R((IF mix.bio # "no" THEN 80 ELSE 0) + (IF extra.b2 # "no" THEN 40 ELSE 0)), BioFrac), RMul(R(IF mix.dbio THEN 40 ELSE 0), DBioFrac))),
                             R(Delivered10(mix) + (IF extra.b2 # "no" THEN 40 ELSE 0)))
\* direct electric + PV, single DHW use of electricity: the PV used for DHW per step over the demand
ClosedFormPv ==
  (Done /\ Computable /\ mix.pv /\ mix.el /\ ~mix.hp /\ ~mix.ts /\ ~mix.gas /\ ~mix.red /\ mix.bio = "no" /\ ~mix.dbio /\ ~extra.aux /\ ~extra.oel /\ extra.chp = "no" /\ ~extra.oamb) =>
     A(comps, Zero).v = RDiv(R(ISumSet(LAMBDA t : IMin(40, IF t = 1 THEN 30 ELSE 100), 1..n)), R(n * 40))

Emit == Done => PrintT(<<"CASE", ToJson([src |-> [comps |-> comps], demand |-> demand,
                                          rare |-> (extra.zel \/ extra.oamb \/ extra.chp = "mixed" \/ extra.b2 # "no" \/ extra.odm)])>>)
=============================================================================
