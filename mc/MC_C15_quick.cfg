SPECIFICATION Spec
CONSTANTS
  MaxN = 2
INVARIANTS InRange ErrorClasses Invariances ClosedForm ClosedFormPv Emit
CHECK_DEADLOCK FALSE
