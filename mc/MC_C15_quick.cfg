SPECIFICATION Spec
CONSTANTS
  MaxN = 1
INVARIANTS InRange ErrorClasses Invariances ClosedForm ClosedFormPv Emit
CHECK_DEADLOCK FALSE
