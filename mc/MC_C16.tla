------------------------------ MODULE MC_C16 ------------------------------
(***************************************************************************)
(* C16: model-driven fault enumeration.  From each base file (components   *)
(* files covering every kind of line, and factor files) TLC enumerates ALL *)
(* fault sequences up to Depth over the chosen lines and atoms, plus token *)
(* soups (every file of one or two lines of at most SoupLen atoms from a   *)
(* small soup alphabet).  The oracle is the terminal-state invariant of    *)
(* the specification: a behaviour of the library ends in Ok or in a typed  *)
(* error, a behaviour of the program in a deliberate exit code - Panic,    *)
(* Signal and Timeout are not states of the specification, so a trace that *)
(* contains one is rejected (Trace_C16).                                   *)
(***************************************************************************)
EXTENDS Faults, Json, TLC

CONSTANTS Depth, FaultLines, AtomSet, SoupLen

VARIABLES kind, base, file, d
vars == <<kind, base, file, d>>

CompBases == <<
  << <<"0", "CONSUMO", "ILU", "ELECTRICIDAD", "4", "6">>, <<"0", "PRODUCCION", "EL_INSITU", "9", "1">> >>,
  << <<"1", "CONSUMO", "CAL", "EAMBIENTE", "8", "2">>, <<"1", "PRODUCCION", "EAMBIENTE", "2", "9">>, <<"DEMANDA", "CAL", "10", "4">>, <<"DEMANDA", "CAL", "1", "1">> >>,
  << <<"2", "CONSUMO", "CAL", "GASNATURAL", "5", "5">>, <<"2", "CONSUMO", "ACS", "GASNATURAL", "2", "2">>, <<"2", "SALIDA", "CAL", "4", "4">>,
     <<"2", "SALIDA", "ACS", "1", "1">>, <<"2", "AUX", "1", "1">> >>,
  << <<"3", "PRODUCCION", "EL_COGEN", "4", "4">>, <<"3", "CONSUMO", "COGEN", "GASNATURAL", "12", "12">>, <<"CONSUMO", "NEPB", "ELECTRICIDAD", "1", "1">>,
     <<"CONSUMO", "ACS", "ELECTRICIDAD", "3", "9">> >>,
  << <<"#META CTE_AREAREF: 10">>, <<"1", "CONSUMO", "REF", "ELECTRICIDAD", "3", "0">>, <<"1", "SALIDA", "REF", "-9", "0">>, <<"1", "AUX", "1", "0">>, <<"DEMANDA", "REF", "9", "0">> >>,
  \* comments and metadata text with non-ASCII characters next to the characters XML escapes ("<CM>" is expanded by the
  \* writers to a comment mixing them): the valid file and every fault that leaves the text alone are rendered
  << <<"#META Nota: x <CM>">>, <<"0", "CONSUMO", "ILU", "ELECTRICIDAD", "4", "6 <CM>">>, <<"0", "PRODUCCION", "EL_INSITU", "9", "1 <CM>">>,
     <<"DEMANDA", "ACS", "3", "3 <CM>">> >>,
  \* a file of one data line: truncating it leaves a components file without any time step
  << <<"4", "CONSUMO", "CAL", "ELECTRICIDAD", "3", "1">> >> >>
FactorBases == <<
  << <<"ELECTRICIDAD", "RED", "SUMINISTRO", "A", "0.5", "2.0", "0.4">>, <<"GASNATURAL", "RED", "SUMINISTRO", "A", "0.0", "1.1", "0.2">> >>,
  << <<"#META CTE_FUENTE: x">>, <<"ELECTRICIDAD", "RED", "SUMINISTRO", "A", "0.5", "2.0", "0.4">>, <<"ELECTRICIDAD", "INSITU", "A_RED", "B", "0.1", "0.2", "0.3">>,
     <<"ELECTRICIDAD", "COGEN", "A_NEPB", "A", "0.1", "2.2", "0.3">> >>,
  << <<"#META CTE_FUENTE: <CM>">>, <<"ELECTRICIDAD", "RED", "SUMINISTRO", "A", "0.5", "2.0", "0.4 <CM>">>,
     <<"GASNATURAL", "RED", "SUMINISTRO", "A", "0.0", "1.1", "0.2 <CM>">> >> >>
SoupAtoms == {"0", "CONSUMO", "DEMANDA", "ACS", "ELECTRICIDAD", "1e39", "", "#"}

\* metadata the program interprets (area, k_exp, location, RED1 / RED2 factors) with every atom as value, and with
\* the atom in the middle of a triple
MetaKeys == {"CTE_AREAREF", "CTE_KEXP", "CTE_LOCALIZACION", "CTE_RED1", "CTE_RED2", "Area_ref", "kexp"}
MetaBuilding == << <<"1", "CONSUMO", "CAL", "RED1", "5", "5">>, <<"1", "CONSUMO", "ACS", "RED2", "1", "2">>, <<"0", "PRODUCCION", "EL_INSITU", "2", "2">> >>
MetaFiles == {<< <<"#META " \o k \o ": " \o a>> >> \o MetaBuilding : k \in MetaKeys, a \in AtomSet}
             \cup {<< <<"#META " \o k \o ": 0.1", a, "0.3">> >> \o MetaBuilding : k \in {"CTE_RED1", "CTE_RED2"}, a \in AtomSet}
             \cup {<< <<"#META " \o k \o ": (0.1", a, "0.3)">> >> \o MetaBuilding : k \in {"CTE_RED1"}, a \in AtomSet}
             \cup {<< <<"#META " \o k \o ": { ren: 0.1", "nren: " \o a, "co2: 0.3 }">> >> \o MetaBuilding : k \in {"CTE_RED2"}, a \in AtomSet}
             \* elements without a colon, missing or extra elements, unbalanced or empty brackets
             \cup {<< <<"#META " \o k \o ": { ren: 0.1", a, "co2: 0.3 }">> >> \o MetaBuilding : k \in {"CTE_RED1"}, a \in AtomSet}
             \cup {<< <<"#META CTE_RED2: " \o v>> >> \o MetaBuilding : v \in {"{}", "{ }", "()", "(", ")", "{", "}", "{ ren: 0.1 }", "{ : }", "{ ren }", "(0.1)", "{(", "({})"}}
             \cup {<< <<"#META CTE_RED1: { ren: 0.1", "nren: 0.2", "co2: 0.3", "}">> >> \o MetaBuilding,
                    << <<"#META CTE_RED1: (0.1", "0.2)">> >> \o MetaBuilding,
                    << <<"#META CTE_RED1: 0.1", "0.2", "0.3", "0.4">> >> \o MetaBuilding,
                    << <<"#META CTE_RED2: { ren: 0", "nren: 1", "3", "co2: 0", "3 }">> >> \o MetaBuilding}

\* refused lines that are long and full of multi-byte characters (the placeholders <L20> ... <L32> are expanded by the
\* writers to 150 two-byte or 100 three-byte characters behind 0, 1 or 2 ASCII characters): whatever echoes or cuts
\* the offending text works on bytes
LongTails == {"<L20>", "<L21>", "<L30>", "<L31>", "<L32>"}
LongComps == UNION {{<< <<"0", "CONSUMO", "ILU", "ELECTRICIDAD", "abc " \o t>> >>, << <<"0", "CONSUMO", "ILU " \o t, "ELECTRICIDAD", "1">> >>,
                      << <<"0", "CONSUMO " \o t>> >>, << <<t, "CONSUMO", "ILU", "ELECTRICIDAD", "1">> >>, << <<"DEMANDA", "ACS " \o t, "1">> >>,
                      << <<"#META" \o t>> >>, << <<"0", "PRODUCCION", "EL_INSITU", "1">>, <<"0", "CONSUMO", "ILU", "ELECTRICIDAD", "1", "2 # " \o t>> >>,
                      << <<"1", "CONSUMO", "CAL", "GASNATURAL", "1">>, <<"1", "CONSUMO", "ACS", "GASNATURAL", "1">>, <<"1", "AUX", "1 # " \o t>> >>}
                    : t \in LongTails}
LongFactors == UNION {{<< <<"ELECTRICIDAD", "RED", "SUMINISTRO", "A", "0.5", "2.0 " \o t>> >>, << <<"ELECTRICIDAD", "RED " \o t, "SUMINISTRO", "A", "0.5", "2.0", "0.4">> >>,
                        << <<"ELECTRICIDAD", "RED", "SUMINISTRO", "A", "0.5", "x" \o t, "0.4">> >>, << <<"GASNATURAL " \o t, "RED", "SUMINISTRO", "A", "0.5", "2.0", "0.4">> >>,
                        << <<"GASNATURAL", "INSITU", "SUMINISTRO", "A", "0.5", "2.0", "0.4 # " \o t>> >>}
                      : t \in LongTails}

Init ==
  \/ kind = "comps" /\ base = -2 /\ d = Depth /\ file \in LongComps
  \/ kind = "factors" /\ base = -2 /\ d = Depth /\ file \in LongFactors
  \/ kind = "comps" /\ base = -1 /\ d = Depth /\ file \in MetaFiles
  \/ \E b \in 1..Len(CompBases) : kind = "comps" /\ base = b /\ file = CompBases[b] /\ d = 0
  \/ \E b \in 1..Len(FactorBases) : kind = "factors" /\ base = b /\ file = FactorBases[b] /\ d = 0
  \/ kind = "comps" /\ base = 0 /\ d = Depth
     /\ \E l1 \in UNION {[1..n -> SoupAtoms] : n \in 1..SoupLen} : file \in {<<l1>>, <<l1, <<"0", "CONSUMO", "ACS", "ELECTRICIDAD", "1">>>>}

Fault ==
  /\ d < Depth /\ d' = d + 1
  /\ file' \in Faults1(file, FaultLines, AtomSet)
  /\ UNCHANGED <<kind, base>>
Next == Fault
Spec == Init /\ [][Next]_vars

Emit == PrintT(<<"CASE", ToJson([kind |-> kind, base |-> base, depth |-> d, lines |-> file])>>)
=============================================================================
