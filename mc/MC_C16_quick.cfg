SPECIFICATION Spec
CONSTANTS
  Depth = 1
  FaultLines = {1, 2, 3, 4, 5}
  AtomSet = {"", "abc", "<NA>", "NaN", "inf", "-inf", "1e39", "-0", "1e-46", "007", "+1", "1.", "#", "CONSUMO", "SALIDA", "DEMANDA", "AUX", "COGEN", "EL_COGEN", "vector", "<FF>"}
  SoupLen = 3
INVARIANTS Emit
CHECK_DEADLOCK FALSE
