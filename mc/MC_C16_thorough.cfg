SPECIFICATION Spec
CONSTANTS
  Depth = 2
  FaultLines = {1, 2, 3}
  AtomSet = {"", "abc", "NaN", "inf", "1e39", "#", "SALIDA", "DEMANDA", "AUX", "<FF>"}
  SoupLen = 4
INVARIANTS Emit
CHECK_DEADLOCK FALSE
