------------------------------ MODULE MC_C17 ------------------------------
(***************************************************************************)
(* C17: the free text that reaches the XML document (component comments,   *)
(* factor comments, metadata values) is enumerated by TLC as every         *)
(* sequence of at most MaxLen atoms of Output!TextAtoms.  Model level: the *)
(* escaping leaves no raw "<" or "&" in text content.  Every string is     *)
(* emitted and placed by the harness in a component comment, a factor      *)
(* comment and a metadata value of a building that is then rendered by the *)
(* real code (XML, plain report, JSON) and lexed.                          *)
(***************************************************************************)
EXTENDS Output, Json

CONSTANT MaxLen
VARIABLES s, done
vars == <<s, done>>
Init == s = <<>> /\ done = FALSE
Next == /\ ~done /\ Len(s) < MaxLen /\ \E a \in TextAtoms : s' = Append(s, a) /\ done' = FALSE
Spec == Init /\ [][Next]_vars
Escaped == [i \in 1..Len(s) |-> EscapeAtom(s[i])]
NoRawMarkup == \A i \in 1..Len(s) : s[i] \in RawDangerous => Escaped[i] # s[i]
Emit == PrintT(<<"CASE", ToJson([atoms |-> s])>>)
=============================================================================
