SPECIFICATION Spec
CONSTANTS
  MaxLen = 2
INVARIANTS NoRawMarkup Emit
CHECK_DEADLOCK FALSE
