SPECIFICATION Spec
CONSTANTS
  MaxLen = 3
INVARIANTS NoRawMarkup Emit
CHECK_DEADLOCK FALSE
