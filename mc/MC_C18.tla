------------------------------ MODULE MC_C18 ------------------------------
(***************************************************************************)
(* C18 at model level: Parse(Print(c)) = c for every component of every    *)
(* kind, id (negative, zero, positive) and tag, with values at the printed *)
(* precision (hundredths) - TextFormat!PrintLine / ParseFields - and the   *)
(* same with the id 0 omitted (legacy lines).  Each component set is       *)
(* emitted with values that need rounding (1.005, 0.125, 2.675) for the    *)
(* save / reload history on the real library.                              *)
(***************************************************************************)
EXTENDS TextFormat, Json, TLC

VARIABLES ph, comp
vars == <<ph, comp>>
Vecs == {<<100, 250>>, <<0, 0>>, <<-300, 1>>, <<1005, 13>>, <<-40, -5>>}
Init == ph = 0 /\ comp = <<>>
Pick ==
  /\ ph = 0 /\ ph' = 1
  /\ \E id \in {-1, 0, 2}, v \in Vecs :
       \/ \E cr \in {"ELECTRICIDAD", "EAMBIENTE", "RED1"}, srv \in {"ACS", "REF", "NEPB", "COGEN"} : comp' = Used(id, cr, srv, v)
       \/ \E src \in ProdSources : comp' = Prod(id, src, v)
       \/ comp' = Aux(id, "NEPB", v)
       \/ \E srv \in {"CAL", "REF"} : comp' = Out(id, srv, v)
       \/ id = 0 /\ \E srv \in NeedSrv : comp' = Need(srv, v)
Next == Pick
Spec == Init /\ [][Next]_vars
RoundTrip == ph = 1 => ParseFields(PrintLine(comp)) = comp
LegacyRoundTrip ==
  (ph = 1 /\ comp.id = 0 /\ comp.kind \in {"USED", "PROD", "AUX"}) => ParseFields(Tail(PrintLine(comp))) = comp
=============================================================================
