SPECIFICATION Spec
INVARIANTS RoundTrip LegacyRoundTrip
CHECK_DEADLOCK FALSE
