------------------------------ MODULE MC_C19 ------------------------------
(***************************************************************************)
(* C19: the configuration space of the command line tool is finite; TLC    *)
(* enumerates it (thorough tier: every area / k_exp quadruple with one     *)
(* eighth of the other parameters and the complete product for the 36      *)
(* quadruples without invalid value, some 340 000                          *)
(* configurations; in the quick tier the two sub-products area x k_exp and *)
(* location x RED1 x RED2 completely, the other half chosen by a covering  *)
(* function) and checks on spec/Cli.tla that the resolution is well formed *)
(* (an accepted run uses the option if given, else valid metadata, else    *)
(* the default; refused configurations have a deliberate code).  Every     *)
(* configuration is emitted for execution by the real binary.              *)
(***************************************************************************)
EXTENDS Cli, Json, TLC

CONSTANT Tier
VARIABLES ph, cfg
vars == <<ph, cfg>>

S5 == <<"absent", "valid", "edge", "range", "text", "fine">>
S3 == <<"absent", "valid", "text">>
SO == <<"absent", "valid", "text", "default">>
LO == <<"absent", "PENINSULA">>
LM == <<"absent", "CANARIAS", "MARTE">>

Init == ph = 0 /\ cfg = <<>>
H1(a, b, c, d) == a + 6 * b + 36 * c + 216 * d
\* first the area / k_exp quadruple, then the rest
PickA ==
  /\ ph = 0 /\ ph' = 1
  /\ \E a \in 1..6, am \in 1..6, k \in 1..6, km \in 1..6 :
       cfg' = [aopt |-> S5[a], ameta |-> S5[am], kopt |-> S5[k], kmeta |-> S5[km], h |-> H1(a, am, k, km)]
PickB ==
  /\ ph = 1 /\ ph' = 2
  /\ \E lo \in 1..2, lm \in 1..3, ff \in BOOLEAN, r1 \in 1..4, r1m \in 1..3, r2 \in 1..4, r2m \in 1..3 :
       /\ (Tier = "quick" =>
             \* either the rest is the covering function of the quadruple ...
             \/ /\ lo = (cfg.h % 2) + 1 /\ lm = ((cfg.h \div 2) % 3) + 1 /\ ff = ((cfg.h \div 6) % 3 = 0)
                /\ r1 = ((cfg.h \div 5) % 4) + 1 /\ r1m = ((cfg.h \div 15) % 3) + 1
                /\ r2 = ((cfg.h \div 7) % 4) + 1 /\ r2m = ((cfg.h \div 21) % 3) + 1
             \* ... or the quadruple is one of three fixed ones and the rest is enumerated completely
             \/ cfg.h \in {H1(1, 1, 1, 1), H1(2, 2, 2, 2), H1(1, 2, 1, 3)})
       \* thorough: every quadruple with one eighth of the rest (chosen by a hash that differs from quadruple to
       \* quadruple), and the complete rest for the quadruples without invalid value
       /\ (Tier = "thorough" =>
             \/ (cfg.h + lo + 3 * lm + (IF ff THEN 5 ELSE 0) + 7 * r1 + 11 * r1m + 13 * r2 + 17 * r2m) % 8 = 0
             \/ (cfg.aopt \in {"absent", "valid", "fine"} /\ cfg.ameta \in {"absent", "valid"}
                  /\ cfg.kopt \in {"absent", "valid", "fine"} /\ cfg.kmeta \in {"absent", "valid"}))
       /\ cfg' = [aopt |-> cfg.aopt, ameta |-> cfg.ameta, kopt |-> cfg.kopt, kmeta |-> cfg.kmeta,
                  lopt |-> LO[lo], lmeta |-> LM[lm], ffile |-> ff,
                  r1opt |-> SO[r1], r1meta |-> S3[r1m], r2opt |-> SO[r2], r2meta |-> S3[r2m],
                  \* spelling of the metadata keys (legacy names Area_ref / kexp / Localizacion are mapped to the
                  \* CTE_ names by the parser) and verbosity of the run: neither may change the outcome
                  legacy |-> ((cfg.h + lo + r1 + r2m) % 2 = 0), verbose |-> ((cfg.h + lm + r1m + r2) % 3)]
Next == PickA \/ PickB
Spec == Init /\ [][Next]_vars

Done == ph = 2
WellFormed ==
  Done => /\ [x \in DOMAIN cfg \ {"legacy", "verbose"} |-> cfg[x]] \in Configs
          /\ \A o \in Allowed(cfg) :
               /\ o.exit \in {0, 1, 64, 65}
               /\ (o.exit = 0 =>
                     /\ (Present(cfg.aopt) => o.area.origin = "usuario")
                     /\ (~Present(cfg.aopt) /\ Present(cfg.ameta) => o.area.origin = "metadatos" /\ o.area.milli = AreaMilli("meta", cfg.ameta))
                     /\ (~Present(cfg.aopt) /\ ~Present(cfg.ameta) => o.area.origin = "predefinido" /\ o.area.milli = 1000)
                     /\ o.area.milli > 1 /\ o.kexp.milli >= 0 /\ o.kexp.milli <= 1000
                     /\ (cfg.ffile => o.fp.origin = "archivo")
                     /\ (cfg.r1opt = "valid" => o.red1 = Red1Opt))
          /\ Cardinality(Allowed(cfg)) \in {1, 2}
Emit == Done => PrintT(<<"CASE", ToJson([cfg |-> cfg])>>)
=============================================================================
