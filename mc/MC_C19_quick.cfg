SPECIFICATION Spec
CONSTANTS
  Tier = "quick"
INVARIANTS WellFormed Emit
CHECK_DEADLOCK FALSE
