SPECIFICATION Spec
CONSTANTS
  Tier = "thorough"
INVARIANTS WellFormed Emit
CHECK_DEADLOCK FALSE
