------------------------------ MODULE MC_Comp ------------------------------
(***************************************************************************)
(* Exhaustive model configuration of the normalisation state machine       *)
(* (spec/Components.tla) for C05, C06 and the schedule part of C10.        *)
(* TLC picks a file (a tuple of system profiles with system ids, possibly  *)
(* negative or shared), then runs CompleteId / AuxId / Sort in EVERY order *)
(* and checks at the end of every behaviour that the result is the closed  *)
(* form - hence the same for all schedules (confluence) - that declared    *)
(* lines are kept, that P_C06 holds for every system and that normalising  *)
(* again changes nothing.  One CASE line per file is emitted for replay.   *)
(***************************************************************************)
EXTENDS Components, Json

CONSTANTS Family, MaxSys

VARIABLES ph, input, data, needs, env, todo, err
vars == <<ph, input, data, needs, env, todo, err>>

U(cr, srv, v) == [kind |-> "USED", cr |-> cr, srv |-> srv, src |-> "-", v |-> v]
P(src, v) == [kind |-> "PROD", cr |-> "-", srv |-> "-", src |-> src, v |-> v]
X(v) == [kind |-> "AUX", cr |-> "-", srv |-> "NEPB", src |-> "-", v |-> v]
O(srv, v) == [kind |-> "OUT", cr |-> "-", srv |-> srv, src |-> "-", v |-> v]
E == "EAMBIENTE"
T == "TERMOSOLAR"
EL == "ELECTRICIDAD"
G == "GASNATURAL"

\* system profiles (two steps each); the id is added when a file is assembled
ProfilesC05 == <<
  <<U(E, "CAL", <<2, 3>>)>>,                                      \* use, production missing
  <<U(E, "CAL", <<2, 3>>), P(E, <<1, 1>>)>>,                       \* partial
  <<U(E, "CAL", <<2, 3>>), P(E, <<3, 1>>)>>,                       \* surplus at one step, partial at the other
  <<U(E, "CAL", <<2, 0>>), U(E, "ACS", <<1, 2>>), P(E, <<5, 5>>)>>, \* surplus, two services
  <<P(E, <<2, 2>>)>>,                                              \* production on a system without use
  <<U(T, "ACS", <<1, 1>>)>>,
  <<U(T, "ACS", <<3, 0>>), P(T, <<1, 2>>)>>,
  <<U(E, "CAL", <<0, 0>>)>>,                                       \* zero use
  <<U(E, "CAL", <<2, 2>>), P(E, <<1, 0>>), P(E, <<0, 1>>)>>,       \* two declared productions
  <<P(T, <<1, 1>>), U(EL, "CAL", <<1, 1>>)>>,
  <<U(E, "NEPB", <<1, 2>>)>>,                                      \* non-EPB use of ambient heat
  <<U(E, "CAL", <<1, 1>>), U(T, "ACS", <<2, 2>>)>> >>

ProfilesC06 == <<
  <<U(EL, "CAL", <<2, 2>>), X(<<1, 2>>)>>,                                                        \* single service
  <<U(G, "CAL", <<4, 4>>), U(G, "ACS", <<2, 2>>), O("CAL", <<3, 1>>), O("ACS", <<1, 3>>), X(<<2, 2>>)>>,  \* two services
  <<U(EL, "REF", <<2, 2>>), U(EL, "CAL", <<1, 1>>), O("REF", <<-2, -2>>), O("CAL", <<1, 0>>), X(<<1, 1>>)>>, \* cooling
  <<U(G, "CAL", <<4, 0>>), U(G, "ACS", <<2, 0>>), O("CAL", <<3, 0>>), O("ACS", <<1, 0>>), X(<<2, 2>>)>>,  \* step without output
  <<U(G, "CAL", <<1, 1>>), U(G, "ACS", <<1, 1>>), X(<<1, 0>>)>>,                                   \* no output declared: error
  <<U(G, "CAL", <<1, 1>>), U(G, "ACS", <<1, 1>>), X(<<0, 0>>)>>,                                   \* ... but nothing to share
  <<U(EL, "ACS", <<1, 1>>), X(<<1, 0>>), X(<<0, 2>>)>>,                                            \* two AUX lines
  <<U(EL, "ILU", <<3, 3>>)>>,                                                                      \* no auxiliaries
  <<U(G, "CAL", <<2, 2>>), U(G, "ACS", <<2, 2>>), U(G, "REF", <<2, 2>>), O("CAL", <<1, 1>>), O("ACS", <<1, 1>>), O("REF", <<-1, -1>>), X(<<3, 0>>)>>, \* three services
  <<U(G, "ACS", <<5, 5>>), X(<<1, 1>>)>>,                                                          \* auxiliaries are the only electricity
  <<U(E, "ACS", <<2, 2>>), U(EL, "ACS", <<1, 1>>), X(<<1, 1>>)>>,                                  \* heat pump, one service
  <<U(G, "CAL", <<4, 4>>), U(G, "ACS", <<2, 2>>), O("CAL", <<2, 1>>), O("CAL", <<1, 0>>), O("ACS", <<1, 3>>), X(<<2, 2>>)>>, \* output of one service on two lines
  <<U(G, "COGEN", <<3, 3>>), P("EL_COGEN", <<1, 1>>), X(<<1, 1>>)>>,                               \* cogenerator: its only consumption is fuel
  <<U(EL, "CAL", <<4, 4>>), U(EL, "REF", <<2, 2>>), O("CAL", <<3, 1>>), O("REF", <<-1, -3>>), O("ACS", <<2, 2>>), X(<<2, 2>>)>>, \* heat recovery: output for a service without consumption
  <<U(EL, "NEPB", <<3, 3>>), X(<<1, 1>>)>>,                                                        \* a system whose only use is not an EPB service
  <<U(EL, "CAL", <<2, 2>>), U(EL, "NEPB", <<1, 1>>), O("CAL", <<2, 2>>), X(<<1, 1>>)>> >>          \* one EPB service next to a non-EPB use

Profiles == IF Family = "C05" THEN ProfilesC05 ELSE ProfilesC06
NP == Len(Profiles)
IdTuples == {<<0>>, <<-1>>} \cup {<<0, 1>>, <<2, -1>>, <<1, 1>>} \cup {<<-1, 0, 2>>, <<1, 1, 2>>}

WithId(p, id) == [k \in 1..Len(p) |-> [p[k] EXCEPT !.kind = p[k].kind] @@ [id |-> id, cm |-> ""]]
RECURSIVE Assemble(_, _)
Assemble(ps, ids) == IF ps = <<>> THEN <<>> ELSE WithId(Profiles[Head(ps)], Head(ids)) \o Assemble(Tail(ps), Tail(ids))

Init == ph = "pick" /\ input = <<>> /\ data = <<>> /\ needs = NoNeeds /\ env = {} /\ todo = {} /\ err = FALSE

\* demand lines of the file (C05 family; chosen by a hash of the systems so that the family does not grow):
\* none, one line, a service on several lines whose running total is negative, zero or positive on the way
Nd(srv, v) == [kind |-> "NEED", id |-> 0, cr |-> "-", srv |-> srv, src |-> "-", v |-> v, cm |-> ""]
DemandSets == <<
  <<>>,
  <<Nd("ACS", <<3, 3>>)>>,
  <<Nd("REF", <<-5, -1>>), Nd("REF", <<10, 2>>), Nd("REF", <<1, 1>>)>>,
  <<Nd("CAL", <<2, 0>>), Nd("ACS", <<1, 1>>), Nd("CAL", <<-2, 0>>), Nd("CAL", <<4, 4>>)>>,
  <<Nd("ACS", <<0, 0>>), Nd("ACS", <<1, 2>>), Nd("REF", <<-1, -1>>), Nd("REF", <<-2, -3>>)>> >>
HashOf(ps, ids) == ISumSet(LAMBDA k : 3 * ps[k] + ids[k] + 2, 1..Len(ids))
DemandOf(ps, ids) == IF Family = "C05" THEN DemandSets[(HashOf(ps, ids) % Len(DemandSets)) + 1] ELSE <<>>
NeedLines(C) == SelectSeq(C, IsNeed)
EnergyLines(C) == SelectSeq(C, LAMBDA x : ~IsNeed(x))

Pick ==
  /\ ph = "pick"
  /\ \E ids \in {t \in IdTuples : Len(t) <= MaxSys} : \E ps \in [1..Len(ids) -> 1..NP] :
       /\ input' = Assemble(ps, ids) \o DemandOf(ps, ids)
       /\ data' = ToRat(EnergyLines(input'))
       /\ needs' = ReadNeeds(NoNeeds, NeedLines(input'))
  /\ ph' = "parsed" /\ UNCHANGED <<env, todo, err>>

\* entry of normalize(): the ids of the first loop
Start ==
  /\ ph = "parsed" /\ ph' = "E"
  /\ env' = EnvIdx(data, E) /\ todo' = CompleteIds(data, E)
  /\ UNCHANGED <<input, data, needs, err>>

\* one visit of the completion loop, any remaining id
CompleteStep(c, next) ==
  /\ ph = c
  /\ IF todo = {}
     THEN /\ ph' = next
          /\ IF next = "T" THEN env' = EnvIdx(data, T) /\ todo' = CompleteIds(data, T)
             ELSE env' = {} /\ todo' = AuxIds(data)
          /\ UNCHANGED data
     ELSE \E id \in todo :
            /\ data' = CompleteIdOp(data, env, IF c = "E" THEN E ELSE T, id)
            /\ todo' = todo \ {id}
            /\ UNCHANGED <<ph, env>>
  /\ UNCHANGED <<input, needs, err>>

AuxStep ==
  /\ ph = "A"
  /\ IF todo = {}
     THEN ph' = "S" /\ UNCHANGED <<data, todo, err>>
     ELSE \E id \in todo : \E r \in AuxIdOp(data, id) :
            IF r.ok THEN data' = r.data /\ todo' = todo \ {id} /\ UNCHANGED <<ph, err>>
            ELSE err' = TRUE /\ ph' = "done" /\ UNCHANGED <<data, todo>>
  /\ UNCHANGED <<input, needs, env>>

SortStep == ph = "S" /\ data' = SortById(data) /\ ph' = "done" /\ UNCHANGED <<input, needs, env, todo, err>>

Next == Pick \/ Start \/ CompleteStep("E", "T") \/ CompleteStep("T", "A") \/ AuxStep \/ SortStep
Spec == Init /\ [][Next]_vars

\* ---------------------------------------------------------------- closed forms
RECURSIVE FoldAux(_, _)
\* canonical order: smallest id first, smallest service first
MinOf(S) == CHOOSE x \in S : \A y \in S : x <= y
FoldAux(C, ids) ==
  IF ids = {} THEN [ok |-> TRUE, data |-> C]
  ELSE LET id == MinOf(ids)
           r == CHOOSE r \in AuxIdOp(C, id) : TRUE
       IN IF ~r.ok THEN r ELSE FoldAux(r.data, ids \ {id})
SeqOfSet(S) == CHOOSE q \in SetToSeqs(S) : TRUE
Canon(C) ==
  LET c1 == C \o SeqOfSet(Completion(C, E)) \o SeqOfSet(Completion(C, T)) IN
  FoldAux(c1, AuxIds(c1))

Done == ph = "done"
In == ToRat(EnergyLines(input))
\* C05, demand lines: what is stored per service is the step-wise sum of the declared lines of that service
DemandKept == ph # "pick" => \A sv \in NeedSrv : needs[sv] = DeclaredNeed(NeedLines(input), sv)
NonAux(C) == SelectSeq(C, LAMBDA x : ~IsAux(x))

\* some system's auxiliaries cannot be assigned: whatever the order, the file is refused
SomeAuxError(C) == \E id \in AuxIds(C) : \E r \in AuxIdOp(C, id) : ~r.ok

Confluent ==
  Done => LET k == Canon(In) IN
          /\ err = ~k.ok
          /\ (~err => Bag(data) = Bag(k.data))

KeepsDeclared ==
  (Done /\ ~err) =>
     /\ Bag(NonAux(data)) = Bag(NonAux(In) \o SeqOfSet(Completion(In, E)) \o SeqOfSet(Completion(In, T)))
     /\ \A i \in 1..(Len(data) - 1) : data[i].id <= data[i + 1].id

AuxAssigned ==
  (Done /\ ~err) => \A id \in AuxIds(In) : P_C06_Id(In, data, id)
                    /\ Bag(NonAux(In)) = Bag(SelectSeq(NonAux(data), LAMBDA x : x.cm # CompletionComment))

Idempotent ==
  (Done /\ ~err) => LET k == Canon(data) IN k.ok /\ Bag(k.data) = Bag(data)

Emit ==
  ph = "parsed" => PrintT(<<"CASE", ToJson([src |-> [comps |-> input]])>>)
=============================================================================
