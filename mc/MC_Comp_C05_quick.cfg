SPECIFICATION Spec
CONSTANTS
  Family = "C05"
  MaxSys = 2
INVARIANTS Confluent KeepsDeclared DemandKept AuxAssigned Idempotent Emit
CHECK_DEADLOCK FALSE
