SPECIFICATION Spec
CONSTANTS
  Family = "C05"
  MaxSys = 3
INVARIANTS Confluent KeepsDeclared DemandKept AuxAssigned Idempotent Emit
CHECK_DEADLOCK FALSE
