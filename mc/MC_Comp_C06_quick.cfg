SPECIFICATION Spec
CONSTANTS
  Family = "C06"
  MaxSys = 2
INVARIANTS Confluent KeepsDeclared DemandKept AuxAssigned Idempotent Emit
CHECK_DEADLOCK FALSE
