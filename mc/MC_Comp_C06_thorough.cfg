SPECIFICATION Spec
CONSTANTS
  Family = "C06"
  MaxSys = 3
INVARIANTS Confluent KeepsDeclared DemandKept AuxAssigned Idempotent Emit
CHECK_DEADLOCK FALSE
