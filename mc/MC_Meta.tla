------------------------------ MODULE MC_Meta ------------------------------
(***************************************************************************)
(* spec/MetaStore.tla explored by TLC: every behaviour that loads a text   *)
(* (at most MaxLines metadata lines over the key / value alphabets, both   *)
(* spellings of the prefix) and then makes Depth further operations        *)
(* (set_meta of any key and value, save + reload, loading a one-line       *)
(* text).  The promises of the operations (SetPost, LoadPost, ReloadPost,  *)
(* NoLegacyKey, TypeOk) are checked in every state, and every complete     *)
(* behaviour is emitted - operations and the store after each of them -    *)
(* for execution on the real Components and Factors types.                 *)
(***************************************************************************)
EXTENDS MetaStore, Json, TLC

CONSTANT Depth
VARIABLE hist          \* the operations made so far, each with the store it led to
mcvars == <<store, prev, last, hist>>

MCInit == Init /\ hist = <<>>
Step(A) == A /\ hist' = Append(hist, [op |-> last', store |-> store'])
ShortTexts == UNION {[1..n -> Lines] : n \in 0..1}
MCNext ==
  /\ Len(hist) <= Depth
  /\ IF hist = <<>> THEN \E t \in Texts : Step(LoadText(t))
     ELSE \/ \E k \in Keys, v \in Vals : Step(SetMeta(k, v))
          \/ Step(SaveReload)
          \/ \E t \in ShortTexts : Step(LoadText(t))
MCSpec == MCInit /\ [][MCNext]_mcvars

Universe == Keys \cup RawKeys \cup {Legacy(k) : k \in RawKeys}
Emit == Len(hist) = Depth + 1 => PrintT(<<"CASE", ToJson([ops |-> hist, universe |-> Universe])>>)
=============================================================================
