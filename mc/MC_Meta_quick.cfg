SPECIFICATION MCSpec
CONSTANTS
  Keys = {"CTE_KEXP", "X", "Y"}
  RawKeys = {"CTE_KEXP", "kexp", "X"}
  Vals = {"1", " 7 "}
  MaxLines = 2
  Depth = 2
INVARIANTS SetPost LoadPost ReloadPost NoLegacyKey TypeOk Emit
CHECK_DEADLOCK FALSE
