SPECIFICATION MCSpec
CONSTANTS
  Keys = {"CTE_KEXP", "CTE_AREAREF", "X", "Area_ref"}
  RawKeys = {"CTE_KEXP", "kexp", "Area_ref", "X"}
  Vals = {"1", " 7 ", "8 "}
  MaxLines = 2
  Depth = 2
INVARIANTS SetPost LoadPost ReloadPost NoLegacyKey TypeOk Emit
CHECK_DEADLOCK FALSE
