----------------------------- MODULE MC_Program -----------------------------
(***************************************************************************)
(* The program state machine of spec/Program.tla explored by TLC from      *)
(* every configuration (thorough: the complete product, 1 032 192            *)
(* configurations; quick: inputs x factor sources completely, crossed with *)
(* eighteen output patterns and the flags by a covering function).  Checked  *)
(* in every state: TerminalOk (C16), NoResultWhenRefused (C19),            *)
(* ResultsAfterEval, Progress (no stage without successor), and that the   *)
(* functional form Outcome(cfg) used by the trace specification agrees     *)
(* with the terminal state the actions reach.  Every terminal state emits  *)
(* its configuration for execution by the real binary.                     *)
(***************************************************************************)
EXTENDS Program, Json, TLC

CONSTANT Tier

O5(a, b, c, d, e) == [o \in Outputs |-> CASE o = "oc" -> a [] o = "of" -> b [] o = "json" -> c [] o = "xml" -> d [] OTHER -> e]
Patterns == {O5("absent", "absent", "absent", "absent", "absent"), O5("ok", "ok", "ok", "ok", "ok")}
            \cup {[o \in Outputs |-> IF o = x THEN "nodir" ELSE "ok"] : x \in Outputs}
            \cup {[o \in Outputs |-> IF o = x THEN "ok" ELSE "absent"] : x \in Outputs}
            \* output paths that already hold a document: all of them, and each one alone
            \cup {O5("over", "over", "over", "over", "over")}
            \cup {[o \in Outputs |-> IF o = x THEN "over" ELSE "ok"] : x \in Outputs}
CompsSeq == <<"none", "valid", "missing", "dir", "empty", "metaonly", "remarks", "garbage", "needsfactor">>
FsrcSeq == <<"none", "loc", "badloc", "file", "filemissing", "filebad", "fileincomplete">>
IndexOf(q, x) == CHOOSE i \in 1..Len(q) : q[i] = x
H(c) == IndexOf(CompsSeq, c.comps) + 9 * IndexOf(FsrcSeq, c.fsrc)
        + 63 * Cardinality({o \in Outputs : c.out[o] \in Writable}) + 7 * Cardinality({o \in Outputs : c.out[o] = "nodir"})
QuickInit ==
  /\ cfg \in {c \in [comps : CompsStates, fsrc : FsrcStates, out : Patterns, license : BOOLEAN, lm : BOOLEAN, v : 0..3] :
                /\ c.lm = (H(c) % 2 = 1) /\ c.v = (H(c) \div 2) % 4
                /\ (c.license => c.out = O5("ok", "ok", "ok", "ok", "ok"))}
  /\ pc = "args" /\ written = {} /\ stale = StaleAtStart(cfg) /\ printed = FALSE /\ exit = -1 /\ reported = FALSE
MCInit == IF Tier = "quick" THEN QuickInit ELSE Init
MCSpec == MCInit /\ [][Next]_vars

Agrees == ~Running => LET o == Outcome(cfg) IN o.exit = exit /\ o.written = written /\ o.stale = stale /\ o.printed = printed /\ o.reported = reported
Emit == ~Running => PrintT(<<"CASE", ToJson([cfg |-> cfg, expect |-> [exit |-> exit, written |-> written, stale |-> stale, printed |-> printed]])>>)
=============================================================================
