SPECIFICATION MCSpec
CONSTANTS
  Tier = "quick"
INVARIANTS TerminalOk NoResultWhenRefused ResultsAfterEval Progress Agrees Emit
CHECK_DEADLOCK FALSE
