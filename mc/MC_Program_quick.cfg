SPECIFICATION MCSpec
CONSTANTS
  Tier = "quick"
INVARIANTS TerminalOk NoResultWhenRefused ResultsAfterEval FreshWhenWritten Progress Agrees Emit
CHECK_DEADLOCK FALSE
