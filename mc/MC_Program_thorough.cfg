SPECIFICATION MCSpec
CONSTANTS
  Tier = "thorough"
INVARIANTS TerminalOk NoResultWhenRefused ResultsAfterEval Progress Agrees Emit
CHECK_DEADLOCK FALSE
