SPECIFICATION MCSpec
CONSTANTS
  Tier = "thorough"
INVARIANTS TerminalOk NoResultWhenRefused ResultsAfterEval FreshWhenWritten Progress Agrees Emit
CHECK_DEADLOCK FALSE
