------------------------------ MODULE MC_Triple ------------------------------
(***************************************************************************)
(* Every triple text TLC builds item by item (at most MaxItems items over  *)
(* the key and value alphabets, every pair of brackets of the              *)
(* configuration) with the outcome spec/Triple.tla gives it, emitted for   *)
(* RenNrenCo2::from_str and get_meta_rennren of the real library.  Checked *)
(* on the specification: the plain and round-bracket spellings agree, a    *)
(* braced text is never refused, and the three documented spellings of one *)
(* triple denote the same triple.                                          *)
(***************************************************************************)
EXTENDS Triple, Json, TLC

CONSTANTS MaxItems, Keys, Vals, Brackets
VARIABLES items, done
vars == <<items, done>>

Init == items = <<>> /\ done = FALSE
AddItem == ~done /\ Len(items) < MaxItems /\ \E k \in Keys, v \in Vals : items' = Append(items, [key |-> k, val |-> v]) /\ done' = FALSE
Close == ~done /\ done' = TRUE /\ items' = items
Next == AddItem \/ Close
Spec == Init /\ [][Next]_vars

BracketsAll == {<<"", "">>, <<"(", ")">>, <<"{", "}">>, <<"({", "})">>, <<"( {", "} )">>, <<"{", "">>, <<"(", "">>, <<"({", "} )">>}
Texts == {[open |-> b[1], items |-> items, close |-> b[2]] : b \in Brackets}
\* round brackets change nothing
RoundNeutral ==
  done => ParseTriple([open |-> "(", items |-> items, close |-> ")"]) = ParseTriple([open |-> "", items |-> items, close |-> ""])
\* the brace branch never refuses
BracedTotal == done => ParseTriple([open |-> "{", items |-> items, close |-> "}"]).ok
\* the three documented spellings of a triple agree: a, b, c | (a, b, c) | { ren: a, nren: b, co2: c }
Documented ==
  (done /\ Len(items) = 3 /\ \A i \in 1..3 : items[i].key = "" /\ items[i].val \in NumericVals) =>
     LET keyed == [i \in 1..3 |-> [key |-> <<"ren", "nren", "co2">>[i], val |-> items[i].val]] IN
     ParseTriple([open |-> "{", items |-> keyed, close |-> "}"]) = ParseTriple([open |-> "", items |-> items, close |-> ""])
Emit == done => \A t \in Texts : PrintT(<<"CASE", ToJson([text |-> t, expect |-> ParseTriple(t)])>>)
=============================================================================
