SPECIFICATION Spec
CONSTANTS
  MaxItems = 3
  Keys = {"", "ren", "nren", "co2", "x"}
  Vals = {"0.5", "2", "-1.25", "NaN", "abc", ""}
  Brackets <- BracketsAll
INVARIANTS RoundNeutral BracedTotal Documented Emit
CHECK_DEADLOCK FALSE
