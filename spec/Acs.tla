--------------------------------- MODULE Acs ---------------------------------
(***************************************************************************)
(* Renewable share of the DHW demand in the nearby perimeter               *)
(* (cte::fraccion_renovable_acs_nrb, src/cte.rs:249-552), transcribed      *)
(* branch by branch.  Input: the normalised components C, the factor list  *)
(* F the evaluation used (derived cogeneration factors are recomputed),    *)
(* and the result r of Balance!Evaluate.  Output:                          *)
(*    [ok |-> TRUE, v |-> rational]  or  [ok |-> FALSE, err |-> class]     *)
(* Contributions: nearby non-biomass carriers at efficiency 1 weighted by  *)
(* ren/(ren+nren); biomass by difference (only nearby carriers and one     *)
(* kind of biomass) or by the declared output energy; on-site electricity  *)
(* used for DHW net of auxiliaries; cogenerated electricity from nearby    *)
(* fuels.  The code's 0.01 kWh thresholds are "= 0" here.                  *)
(***************************************************************************)
EXTENDS Balance

Biomass == {"BIOMASA", "BIOMASADENSIFICADA"}
\* comment class of a component whose comment holds the tag CTEEPBD_EXCLUYE_SCOP_ACS (ambient heat of a heat pump
\* with a low seasonal performance, not to be counted as renewable DHW supply)
LowScopTag == "@lowscop"
LowScopOf(C) == R(ISumSet(LAMBDA i : ISumSeq(C[i].v),
                          {i \in Idx(C) : IsUsed(C[i]) /\ C[i].cr = "EAMBIENTE" /\ C[i].srv = "ACS" /\ C[i].cm = LowScopTag}))

\* ren / (ren + nren) of the supply factor of carrier c (on-site source for electricity)
FracKey(c) == Key(c, IF c = "ELECTRICIDAD" THEN "INSITU" ELSE "RED", "SUMINISTRO", "A")
HasFrac(F, c) == Has(F, FracKey(c))
Frac(F, c) == LET f == Find(F, FracKey(c)) IN RDiv(f[1], RAdd(f[1], f[2]))

AcsFraction(C, F, r, lowScop) ==
  LET b == r.bal
      D == CgnDerived(C, F)
      usedAll == IF "ACS" \in DOMAIN b.used_epus_by_cr_by_srv THEN b.used_epus_by_cr_by_srv["ACS"] ELSE <<>>
      crs0 == DOMAIN usedAll
      auxDhw == R(ISumSet(LAMBDA i : ISumSeq(C[i].v), {i \in Idx(C) : IsAux(C[i]) /\ C[i].srv = "ACS"}))
      \* use by carrier net of DHW auxiliaries and of ambient heat excluded by the low-SCOP tag
      net(c) == IF c = "ELECTRICIDAD" THEN RSub(usedAll[c], auxDhw)
                ELSE IF c = "EAMBIENTE" THEN RSub(usedAll[c], lowScop) ELSE usedAll[c]
      crs1 == {c \in crs0 : ~(c = "ELECTRICIDAD" /\ RIsZero(net(c)))}
      crs2 == {c \in crs1 : ~(c = "EAMBIENTE" /\ RIsZero(net(c)))}
      nrbNB == {c \in crs2 : c \in Nearby /\ c \notin Biomass}
      hasB == "BIOMASA" \in crs2
      hasDB == "BIOMASADENSIFICADA" \in crs2
      onlyNearby == crs2 \subseteq Nearby
      need == b.needs["ACS"]
      tot == SumSet(LAMBDA c : net(c), nrbNB)
      renNB == SumSet(LAMBDA c : RMul(net(c), Frac(F, c)), nrbNB)
      idsWith(cr) == {C[i].id : i \in {i \in Idx(C) : IsUsed(C[i]) /\ C[i].srv = "ACS" /\ C[i].cr = cr}}
      hasOut(id) == \E i \in Idx(C) : IsOut(C[i]) /\ C[i].id = id /\ C[i].srv = "ACS"
      outOf(cr) == R(ISumSet(LAMBDA i : ISumSeq(C[i].v), {i \in Idx(C) : IsOut(C[i]) /\ C[i].srv = "ACS" /\ C[i].id \in idsWith(cr)}))
      byDifference == (hasB # hasDB) /\ onlyNearby
      missingOut == ~byDifference /\ ((hasB /\ \E id \in idsWith("BIOMASA") : ~hasOut(id))
                                      \/ (hasDB /\ \E id \in idsWith("BIOMASADENSIFICADA") : ~hasOut(id)))
      renBio == IF byDifference THEN RMul(RSub(need, tot), Frac(F, IF hasB THEN "BIOMASA" ELSE "BIOMASADENSIFICADA"))
                ELSE RAdd(IF hasB THEN RMul(outOf("BIOMASA"), Frac(F, "BIOMASA")) ELSE Zero,
                          IF hasDB THEN RMul(outOf("BIOMASADENSIFICADA"), Frac(F, "BIOMASADENSIFICADA")) ELSE Zero)
      elAll == IF "ELECTRICIDAD" \in crs0 THEN usedAll["ELECTRICIDAD"] ELSE Zero
      fracNonAux == IF RIsZero(elAll) THEN One ELSE RSub(One, RDiv(auxDhw, elAll))
      bySrc(j) == IF j \in DOMAIN b.prod_epus_by_srv_by_src /\ "ACS" \in DOMAIN b.prod_epus_by_srv_by_src[j]
                  THEN b.prod_epus_by_srv_by_src[j]["ACS"] ELSE Zero
      qEl == RMul(bySrc("EL_INSITU"), fracNonAux)
      elNet == IF "ELECTRICIDAD" \in crs2 THEN net("ELECTRICIDAD") ELSE Zero
      cgnNearby == \E i \in Idx(C) : IsCgnUse(C[i]) /\ C[i].cr \in Nearby
      cgnActive == RPos(elNet) /\ RPos(bySrc("EL_COGEN")) /\ cgnNearby
      fCgn == Find2(F, D, Key("ELECTRICIDAD", "COGEN", "SUMINISTRO", "A"))
      fCgnTot == RAdd(fCgn[1], fCgn[2])
      den == CgnPrAn(C)
      fCgnRenNrb == IF den = 0 THEN Zero
                    ELSE SumSet(LAMBDA c : RMul(Find(F, Key(c, "RED", "SUMINISTRO", "A"))[1], Norm(CgnInAn(C, c), den)),
                                CgnUseCarriers(C) \cap Nearby)
      qCgn == IF cgnActive /\ RPos(fCgnTot) THEN RMul(RMul(bySrc("EL_COGEN"), fracNonAux), RDiv(fCgnRenNrb, fCgnTot)) ELSE Zero
      fracMissing == (\E c \in nrbNB : ~HasFrac(F, c))
                     \/ (hasB /\ ~HasFrac(F, "BIOMASA")) \/ (hasDB /\ ~HasFrac(F, "BIOMASADENSIFICADA"))
  IN IF "ACS" \notin DOMAIN b.needs THEN [ok |-> FALSE, err |-> "WrongInput", class |-> "no_demand_declared"]
     ELSE IF crs1 = {} THEN [ok |-> TRUE, v |-> Zero]
     ELSE IF RIsZero(need) THEN [ok |-> FALSE, err |-> "WrongInput", class |-> "zero_demand"]
     ELSE IF fracMissing THEN [ok |-> FALSE, err |-> "WrongInput", class |-> "no_factor"]
     ELSE IF (hasB \/ hasDB) /\ missingOut THEN [ok |-> FALSE, err |-> "WrongInput", class |-> "biomass_without_output"]
     ELSE [ok |-> TRUE, v |-> RDiv(RAdd(RAdd(renNB, renBio), RAdd(qEl, qCgn)), need)]
=============================================================================
