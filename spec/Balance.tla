------------------------------ MODULE Balance ------------------------------
(***************************************************************************)
(* The EN ISO 52000-1 energy balance as cteepbd states it (src/balance.rs, *)
(* src/wfactors.rs add_cgn_factors, src/types/balance/*.rs), in exact      *)
(* arithmetic: an independent evaluation of equations (2), (9)-(14),       *)
(* (20)-(28), (32) under the documented assumptions.                       *)
(*                                                                         *)
(* Input of an evaluation:                                                 *)
(*   C   normalised component list (sequence of records, EpbTypes)         *)
(*   F   prepared factor list (sequence of Fac records, thousandths)       *)
(*   k   k_exp, a rational      A   reference area, a rational             *)
(*   lm  load matching on/off   N   number of time steps                   *)
(*                                                                         *)
(* One critical section of the code = one operator here:                   *)
(*   UsedProduced  ~ compute_used_produced    (9)-(14), (32)               *)
(*   ExportedDelivered ~ compute_exported_delivered                        *)
(*   CgnFactors    ~ Factors::add_cgn_factors                              *)
(*   Weighted      ~ compute_weighted_energy  (2), (20)-(28), E.3.6        *)
(*   Accumulate    ~ AddAssign<&BalanceCarrier> for Balance                *)
(*   Evaluate      ~ energy_performance                                    *)
(* The specification has no absolute thresholds (1e-3, 0.01): the          *)
(* properties quantify over values that are 0 or >= 0.01 kWh.              *)
(***************************************************************************)
EXTENDS Rat, EpbTypes, TLC

\* ------------------------------------------------------------------ factors
FT(f) == <<Norm(f.m[1], 1000), Norm(f.m[2], 1000), Norm(f.m[3], 1000)>>

RECURSIVE FindIdx(_, _, _)
\* index of the first factor with key k at or after position i, 0 if none (Factors::find)
FindIdx(F, k, i) ==
  IF i > Len(F) THEN 0 ELSE IF KeyOf(F[i]) = k THEN i ELSE FindIdx(F, k, i + 1)
Has(F, k) == FindIdx(F, k, 1) # 0
Find(F, k) == LET i == FindIdx(F, k, 1) IN IF i = 0 THEN TZero ELSE FT(F[i])
FindM(F, k) == LET i == FindIdx(F, k, 1) IN IF i = 0 THEN <<0, 0, 0>> ELSE F[i].m

\* --------------------------------------------------------- component sums
Avail(C) == {CarrierOf(C[i]) : i \in {i \in Idx(C) : IsUsed(C[i]) \/ IsProd(C[i]) \/ IsAux(C[i])}}
\* carriers that get a balance in the code as written (auxiliaries do not count: defect D5)
AvailAsCoded(C) == {CarrierOf(C[i]) : i \in {i \in Idx(C) : IsUsed(C[i]) \/ IsProd(C[i])}}

ISumAt(C, S, t) == ISumSet(LAMBDA i : C[i].v[t], S)

\* TLC evaluates function constructors lazily and re-evaluates the body at every
\* application; E forces one eager evaluation (it is the identity semantically).
E(f) == TLCEval(f)

(***************************************************************************)
(* compute_used_produced: per-step EPB / non-EPB / cogeneration use,       *)
(* production by source, load matching factor, allocation of production to *)
(* EPB uses (priority EL_INSITU > EL_COGEN when both are declared,         *)
(* otherwise proportional to each source's share), split by service.       *)
(***************************************************************************)
UsedProduced(C, c, lm, N) ==
  LET St == 1..N
      Cc == {i \in Idx(C) : CarrierOf(C[i]) = c}
      Iep == {i \in Cc : IsEpbUse(C[i])}
      srvs == {C[i].srv : i \in Iep}
      epus == E([t \in St |-> ISumAt(C, Iep, t)])
      epusS == E([s \in srvs |-> E([t \in St |-> ISumAt(C, {i \in Iep : C[i].srv = s}, t)])])
      nepus == E([t \in St |-> ISumAt(C, {i \in Cc : IsOtherUse(C[i])}, t)])
      cgnus == E([t \in St |-> ISumAt(C, {i \in Cc : IsCgnUse(C[i])}, t)])
      Ipr == {i \in Cc : IsProd(C[i])}
      srcs == {C[i].src : i \in Ipr}
      prJ == E([j \in srcs |-> E([t \in St |-> ISumAt(C, {i \in Ipr : C[i].src = j}, t)])])
      pr == E([t \in St |-> ISumSet(LAMBDA j : prJ[j][t], srcs)])
      \* (32), table B.32 with k = n = 1:  (x + 1/x - 1)/(x + 1/x), x = pr/use
      fm == E([t \in St |->
               IF ~lm \/ pr[t] <= 0 \/ epus[t] <= 0 THEN One
               ELSE LET p == pr[t]  u == epus[t]
                    IN Norm(p * p + u * u - p * u, p * p + u * u)])
      prio == c = "ELECTRICIDAD" /\ {"EL_INSITU", "EL_COGEN"} \subseteq srcs
      usedJ == E([j \in srcs |-> E([t \in St |->
                 IF prio THEN
                   IF j = "EL_INSITU"
                   THEN RMul(fm[t], R(IMin(prJ[j][t], epus[t])))                      \* (10),(12)
                   ELSE RMul(fm[t], R(IMin(prJ[j][t],
                                  epus[t] - IMin(prJ["EL_INSITU"][t], epus[t]))))       \* (11),(12)
                 ELSE IF pr[t] = 0 THEN Zero
                 ELSE RMul(RMul(fm[t], R(IMin(epus[t], pr[t]))), Norm(prJ[j][t], pr[t]))])])  \* (14)
      used == E([t \in St |-> SumSet(LAMBDA j : usedJ[j][t], srcs)])
      usedJS == E([j \in srcs |-> E([s \in srvs |-> E([t \in St |->
                  IF epus[t] <= 0 THEN Zero ELSE RMul(usedJ[j][t], Norm(epusS[s][t], epus[t]))])])])
  IN [steps |-> St, srvs |-> srvs, srcs |-> srcs, prio |-> prio,
      epus |-> epus, epusS |-> epusS, nepus |-> nepus, cgnus |-> cgnus,
      prJ |-> prJ, pr |-> pr, fm |-> fm, usedJ |-> usedJ, used |-> used, usedJS |-> usedJS]

(***************************************************************************)
(* compute_exported_delivered                                              *)
(***************************************************************************)
ExportedDelivered(up) ==
  LET St == up.steps
      exp == E([t \in St |-> RSub(R(up.pr[t]), up.used[t])])
      expN == E([t \in St |-> RMin(exp[t], R(up.nepus[t]))])
      expG == E([t \in St |-> RSub(exp[t], expN[t])])
      del == E([t \in St |-> RSub(R(up.epus[t]), up.used[t])])
      onst == E([t \in St |-> ISumSet(LAMBDA j : up.prJ[j][t], {j \in up.srcs : SrcOf(j) = "INSITU"})])
      expJ == E([j \in up.srcs |-> E([t \in St |-> RSub(R(up.prJ[j][t]), up.usedJ[j][t])])])
  IN [exp |-> exp, expN |-> expN, expG |-> expG, del |-> del, onst |-> onst, expJ |-> expJ]

AnR(f) == SumSet(LAMBDA t : f[t], DOMAIN f)
AnI(f) == ISumSet(LAMBDA t : f[t], DOMAIN f)

(***************************************************************************)
(* add_cgn_factors: when cogenerated electricity is declared, five derived *)
(* factors are appended after the prepared list (a user-supplied COGEN     *)
(* factor, being earlier in the list, wins in Find).                       *)
(*   step A  = weighted cogeneration input / cogenerated electricity       *)
(*             (ratio of the annual sums)                                  *)
(*   step B  = grid factor of electricity                                  *)
(***************************************************************************)
HasCgnPr(C) == \E i \in Idx(C) : IsCgnPr(C[i])
CgnUseCarriers(C) == {C[i].cr : i \in {i \in Idx(C) : IsCgnUse(C[i])}}
CgnInAn(C, c) == ISumSet(LAMBDA i : ISumSeq(C[i].v), {i \in Idx(C) : IsCgnUse(C[i]) /\ C[i].cr = c})
CgnPrAn(C) == ISumSet(LAMBDA i : ISumSeq(C[i].v), {i \in Idx(C) : IsCgnPr(C[i])})
FCgnA(C, F) ==
  LET den == CgnPrAn(C) IN
  IF den = 0 THEN TZero
  ELSE TSumSet(LAMBDA c : TScale(Find(F, Key(c, "RED", "SUMINISTRO", "A")), Norm(CgnInAn(C, c), den)),
               CgnUseCarriers(C))
\* the look-ups add_cgn_factors performs
CgnNeeded(C) ==
  IF ~HasCgnPr(C) \/ CgnUseCarriers(C) = {} THEN {}
  ELSE {Key(c, "RED", "SUMINISTRO", "A") : c \in CgnUseCarriers(C)}
       \cup {Key("ELECTRICIDAD", "RED", "SUMINISTRO", "A")}
\* derived factors as (key, triple) pairs consulted after the list F
CgnDerived(C, F) ==
  IF ~HasCgnPr(C) THEN <<>>
  ELSE LET fa == FCgnA(C, F)
           fg == Find(F, Key("ELECTRICIDAD", "RED", "SUMINISTRO", "A"))
       IN << <<Key("ELECTRICIDAD", "COGEN", "SUMINISTRO", "A"), fa>>,
             <<Key("ELECTRICIDAD", "COGEN", "A_NEPB", "A"), fa>>,
             <<Key("ELECTRICIDAD", "COGEN", "A_RED", "A"), fa>>,
             <<Key("ELECTRICIDAD", "COGEN", "A_NEPB", "B"), fg>>,
             <<Key("ELECTRICIDAD", "COGEN", "A_RED", "B"), fg>> >>
RECURSIVE DIdx(_, _, _)
DIdx(D, k, i) == IF i > Len(D) THEN 0 ELSE IF D[i][1] = k THEN i ELSE DIdx(D, k, i + 1)
Has2(F, D, k) == Has(F, k) \/ DIdx(D, k, 1) # 0
Find2(F, D, k) ==
  IF Has(F, k) THEN Find(F, k)
  ELSE LET i == DIdx(D, k, 1) IN IF i = 0 THEN TZero ELSE D[i][2]

(***************************************************************************)
(* compute_weighted_energy.  Look-ups happen only for non-zero energies    *)
(* (guards are exact comparisons with 0 in the code); LookupsCr is the set *)
(* of keys the evaluation of one carrier consults.                         *)
(***************************************************************************)
Annual(up, ed) ==
  [epus |-> AnI(up.epus), nepus |-> AnI(up.nepus), cgnus |-> AnI(up.cgnus),
   epusS |-> E([s \in up.srvs |-> AnI(up.epusS[s])]),
   pr |-> AnI(up.pr), prJ |-> E([j \in up.srcs |-> AnI(up.prJ[j])]),
   used |-> AnR(up.used), usedJ |-> E([j \in up.srcs |-> AnR(up.usedJ[j])]),
   usedJS |-> E([j \in up.srcs |-> E([s \in up.srvs |-> AnR(up.usedJS[j][s])])]),
   expN |-> AnR(ed.expN), expG |-> AnR(ed.expG), exp |-> RAdd(AnR(ed.expN), AnR(ed.expG)),
   expJ |-> E([j \in up.srcs |-> AnR(ed.expJ[j])]),
   delG |-> AnR(ed.del), onst |-> AnI(ed.onst),
   del |-> RAdd(RAdd(AnR(ed.del), R(AnI(ed.onst))), R(AnI(up.cgnus)))]

LookupsCr(c, up, an) ==
  {Key(c, "RED", "SUMINISTRO", "A")}
  \cup (IF an.onst # 0 THEN {Key(c, "INSITU", "SUMINISTRO", "A")} ELSE {})
  \cup (IF ~RIsZero(an.exp) /\ ~RIsZero(an.expN)
        THEN {Key(c, SrcOf(j), "A_NEPB", s) : j \in up.srcs, s \in StepsAB} ELSE {})
  \cup (IF ~RIsZero(an.exp) /\ ~RIsZero(an.expG)
        THEN {Key(c, SrcOf(j), "A_RED", s) : j \in up.srcs, s \in StepsAB} ELSE {})

Weighted(c, F, D, k, up, an) ==
  LET fg == Find2(F, D, Key(c, "RED", "SUMINISTRO", "A"))
      wdelG == TScale(fg, an.delG)
      wdelC == TScale(fg, R(an.cgnus))
      wdelO == IF an.onst = 0 THEN TZero
               ELSE TScale(Find2(F, D, Key(c, "INSITU", "SUMINISTRO", "A")), R(an.onst))
      wdel == TAdd(TAdd(wdelG, wdelO), wdelC)
      hasExp == ~RIsZero(an.exp)
      \* export factors averaged by each source's share of the exported energy
      favg(dest, step) == TSumSet(LAMBDA j : TScale(Find2(F, D, Key(c, SrcOf(j), dest, step)),
                                                    RDiv(an.expJ[j], an.exp)), up.srcs)
      fNA == IF hasExp /\ ~RIsZero(an.expN) THEN favg("A_NEPB", "A") ELSE TZero
      fGA == IF hasExp /\ ~RIsZero(an.expG) THEN favg("A_RED", "A") ELSE TZero
      fNB == IF hasExp /\ ~RIsZero(an.expN) THEN favg("A_NEPB", "B") ELSE TZero
      fGB == IF hasExp /\ ~RIsZero(an.expG) THEN favg("A_RED", "B") ELSE TZero
      wexpNA == TScale(fNA, an.expN)                                 \* (24)
      wexpGA == TScale(fGA, an.expG)                                 \* (25)
      wexpA == TAdd(wexpNA, wexpGA)                                  \* (23)
      wexpNAB == TScale(TSub(fNB, fNA), an.expN)                     \* (27)
      wexpGAB == TScale(TSub(fGB, fGA), an.expG)                     \* (28)
      wexpAB == TAdd(wexpNAB, wexpGAB)                               \* (26)
      wexp == TAdd(wexpA, TScale(wexpAB, k))                         \* (20)
      wa == TSub(wdel, wexpA)
      wb == TSub(wdel, wexp)                                         \* (2)
      share(s) == IF an.epus <= 0 THEN Zero ELSE Norm(an.epusS[s], an.epus)   \* E.3.6
  IN [a |-> wa, b |-> wb,
      a_by_srv |-> E([s \in up.srvs |-> TScale(wa, share(s))]),
      b_by_srv |-> E([s \in up.srvs |-> TScale(wb, share(s))]),
      del |-> wdel, del_grid |-> wdelG, del_onst |-> wdelO, del_cgn |-> wdelC,
      exp |-> wexp, exp_a |-> wexpA, exp_nepus_a |-> wexpNA, exp_grid_a |-> wexpGA,
      exp_ab |-> wexpAB, exp_nepus_ab |-> wexpNAB, exp_grid_ab |-> wexpGAB]

BalanceCarrier(C, F, D, c, k, lm, N) ==
  LET up == UsedProduced(C, c, lm, N)
      ed == ExportedDelivered(up)
      an == Annual(up, ed)
  IN [up |-> up, ed |-> ed, an |-> an, we |-> Weighted(c, F, D, k, up, an),
      lookups |-> LookupsCr(c, up, an)]

(***************************************************************************)
(* Outcome class of an evaluation, before any arithmetic                   *)
(* (energy_performance's error returns, in the code's order).              *)
(***************************************************************************)
AreaOk(A) == RLeq(<<1, 1000>>, A)
NeededKeys(C, F, k, lm, N) ==
  LET D == CgnDerived(C, F) IN
  CgnNeeded(C) \cup
  UNION {BalanceCarrier(C, F, D, c, k, lm, N).lookups : c \in Avail(C)}

Outcome(C, F, k, A, lm, N) ==
  IF ~AreaOk(A) THEN "WrongInput"
  ELSE IF HasCgnPr(C) /\ CgnUseCarriers(C) = {} THEN "WrongInput"
  ELSE IF \E key \in CgnNeeded(C) : ~Has(F, key) THEN "MissingFactor"
  ELSE LET D == CgnDerived(C, F) IN
       IF \E key \in NeededKeys(C, F, k, lm, N) : ~Has2(F, D, key) THEN "MissingFactor"
       ELSE "Ok"

(***************************************************************************)
(* energy_performance for an input whose Outcome is "Ok".                  *)
(***************************************************************************)
NeedsAn(C, s) ==
  LET I == {i \in Idx(C) : IsNeed(C[i]) /\ C[i].srv = s}
  IN ISumSet(LAMBDA i : ISumSeq(C[i].v), I)
NeedSrvs(C) == {C[i].srv : i \in {i \in Idx(C) : IsNeed(C[i])}}

Evaluate(C, F, k, A, lm, N) ==
  LET D == CgnDerived(C, F)
      crs == Avail(C)
      bc == E([c \in crs |-> BalanceCarrier(C, F, D, c, k, lm, N)])
      srvsAll == UNION {bc[c].up.srvs : c \in crs}
      srcsAll == UNION {bc[c].up.srcs : c \in crs}
      sumR(f(_)) == SumSet(f, crs)
      sumT(f(_)) == TSumSet(f, crs)
      wa == sumT(LAMBDA c : bc[c].we.a)
      wb == sumT(LAMBDA c : bc[c].we.b)
      tot == RAdd(wb[1], wb[2])
      \* ren_onst_nrb: renewable energy of the on-site / nearby perimeters.  On-site electricity counts
      \* net of its exported share, and the nearby renewable fuel of cogeneration net of the share
      \* of the cogenerated electricity that is exported (both weighted by 1 - k_exp, like step B)
      el == "ELECTRICIDAD"
      renNrbCr == SumSet(LAMBDA c : bc[c].we.b[1], crs \cap Nearby)
      renOnstCr == SumSet(LAMBDA c : bc[c].we.b[1], crs \cap Onsite)
      hasSrc(j) == el \in crs /\ j \in bc[el].up.srcs
      pvShare == IF hasSrc("EL_INSITU") /\ bc[el].an.onst > 0 THEN RDiv(bc[el].an.expJ["EL_INSITU"], R(bc[el].an.onst)) ELSE Zero
      cgnShare == IF hasSrc("EL_COGEN") /\ bc[el].an.prJ["EL_COGEN"] > 0
                  THEN RDiv(bc[el].an.expJ["EL_COGEN"], R(bc[el].an.prJ["EL_COGEN"])) ELSE Zero
      renElOnst == IF el \in crs THEN RMul(bc[el].we.del_onst[1], RSub(One, RMul(RSub(One, k), pvShare))) ELSE Zero
      renCgnExp == RMul(SumSet(LAMBDA c : bc[c].we.del_cgn[1], crs \cap Nearby), cgnShare)
      onst == RAdd(renOnstCr, renElOnst)
      \* (electricity the grid delivers to feed a cogenerator - we.del_cgn of ELECTRICIDAD - is not a nearby resource)
      nrb == RSub(RAdd(renNrbCr, renElOnst), RMul(RSub(One, k), renCgnExp))
      bal ==
        [needs |-> [s \in NeedSrvs(C) |-> R(NeedsAn(C, s))],
         used_epus |-> R(ISumSet(LAMBDA c : bc[c].an.epus, crs)),
         used_nepus |-> R(ISumSet(LAMBDA c : bc[c].an.nepus, crs)),
         used_cgnus |-> R(ISumSet(LAMBDA c : bc[c].an.cgnus, crs)),
         used_epus_by_srv |-> [s \in srvsAll |->
              R(ISumSet(LAMBDA c : bc[c].an.epusS[s], {c \in crs : s \in bc[c].up.srvs}))],
         used_epus_by_cr |-> [c \in {c \in crs : bc[c].an.epus # 0} |-> R(bc[c].an.epus)],
         used_epus_by_cr_by_srv |-> [s \in srvsAll |->
              [c \in {c \in crs : s \in bc[c].up.srvs} |-> R(bc[c].an.epusS[s])]],
         prod_an |-> R(ISumSet(LAMBDA c : bc[c].an.pr, crs)),
         prod_by_cr |-> [c \in {c \in crs : bc[c].an.pr # 0} |-> R(bc[c].an.pr)],
         prod_by_src |-> [j \in srcsAll |-> R(bc[CrOf(j)].an.prJ[j])],
         prod_epus_by_src |-> [j \in srcsAll |-> bc[CrOf(j)].an.usedJ[j]],
         prod_epus_by_srv_by_src |-> [j \in srcsAll |->
              [s \in bc[CrOf(j)].up.srvs |-> bc[CrOf(j)].an.usedJS[j][s]]],
         del_an |-> sumR(LAMBDA c : bc[c].an.del),
         del_onst |-> R(ISumSet(LAMBDA c : bc[c].an.onst, crs)),
         del_grid |-> sumR(LAMBDA c : bc[c].an.delG),
         del_grid_by_cr |-> [c \in {c \in crs : ~RIsZero(bc[c].an.delG)} |-> bc[c].an.delG],
         exp_an |-> sumR(LAMBDA c : bc[c].an.exp),
         exp_grid |-> sumR(LAMBDA c : bc[c].an.expG),
         exp_nepus |-> sumR(LAMBDA c : bc[c].an.expN),
         we_a |-> wa, we_b |-> wb,
         we_a_by_srv |-> [s \in srvsAll |->
              TSumSet(LAMBDA c : bc[c].we.a_by_srv[s], {c \in crs : s \in bc[c].up.srvs})],
         we_b_by_srv |-> [s \in srvsAll |->
              TSumSet(LAMBDA c : bc[c].we.b_by_srv[s], {c \in crs : s \in bc[c].up.srvs})],
         we_del |-> sumT(LAMBDA c : bc[c].we.del),
         we_exp_a |-> sumT(LAMBDA c : bc[c].we.exp_a),
         we_exp |-> sumT(LAMBDA c : bc[c].we.exp)]
  IN [crs |-> crs, cr |-> bc, bal |-> bal, area |-> A, k |-> k,
      rer |-> IF RIsZero(tot) THEN Zero ELSE RDiv(wb[1], tot),
      rer_onst |-> IF RPos(tot) THEN RDiv(onst, tot) ELSE Zero,
      rer_nrb |-> IF RPos(tot) THEN RDiv(nrb, tot) ELSE Zero,
      tot |-> tot]
=============================================================================
