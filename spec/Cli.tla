-------------------------------- MODULE Cli --------------------------------
(***************************************************************************)
(* Resolution of the five parameters of the command line tool              *)
(* (src/bin/cteepbd.rs): reference area, k_exp, location of the regulatory *)
(* factors, RED1 and RED2 - option > metadata of the components file >     *)
(* default; a factors file beats any location - and the exit code.         *)
(*                                                                         *)
(* A configuration says, for each parameter, in which state the option and *)
(* the metadata are.  Allowed(cfg) is the SET of outcomes the property     *)
(* accepts.  A bad value of the area or of k_exp is refused with 65        *)
(* wherever it is given - also a metadata value that a valid option would  *)
(* override ("bad values terminate with exit code 65", as the tree does).  *)
(* Only for invalid RED1 / RED2 metadata, which the statement does not     *)
(* single out and the tree ignores with a message, both "refuse with 65"   *)
(* and "ignore it" are allowed.                                            *)
(*                                                                         *)
(* States:  "absent" | "valid" | "fine" | "edge" | "range" | "text"        *)
(*   area   option 2.25 / 0.004 / 0.001 (refused: <= 0.001) / -3 / abc     *)
(*          metadata 4.75 / 1.234 / 0.001 / 0 / xyz                        *)
(*   k_exp  option 0.25 / 0.125 / 1 (accepted: in [0,1]) / 1.5 / abc       *)
(*          metadata 0.35 / 0.375 / 0 (accepted) / -0.1 / k                *)
(*   ("valid": two decimals, the precision at which the reports state both *)
(*   values; "fine": a valid value with three decimals - it is the value   *)
(*   used, and is echoed and recorded at the printed precision;            *)
(*   "text" is, in turn, a word, the spelling NaN / nan of "not a number"  *)
(*   - which a float parser accepts but is no number - or an empty value)  *)
(*   loc    option absent | "PENINSULA"; metadata absent | "CANARIAS" |    *)
(*          "MARTE"; ffile TRUE/FALSE                                      *)
(*   red    option absent | valid | text | default (the documented default *)
(*          given explicitly); metadata absent | valid | text              *)
(* Values are strings / integers in thousandths; nothing is computed here. *)
(***************************************************************************)
EXTENDS Integers, Sequences, FiniteSets

AreaOptVal(s) == CASE s = "valid" -> "2.25" [] s = "fine" -> "0.004" [] s = "edge" -> "0.001" [] s = "range" -> "-3" [] s = "text" -> "abc" [] OTHER -> ""
AreaMetaVal(s) == CASE s = "valid" -> "4.75" [] s = "fine" -> "1.234" [] s = "edge" -> "0.001" [] s = "range" -> "0" [] s = "text" -> "xyz" [] OTHER -> ""
KOptVal(s) == CASE s = "valid" -> "0.25" [] s = "fine" -> "0.125" [] s = "edge" -> "1" [] s = "range" -> "1.5" [] s = "text" -> "abc" [] OTHER -> ""
KMetaVal(s) == CASE s = "valid" -> "0.35" [] s = "fine" -> "0.375" [] s = "edge" -> "0" [] s = "range" -> "-0.1" [] s = "text" -> "k" [] OTHER -> ""

\* accepted values, in thousandths
AreaOk(origin, s) == s \in {"valid", "fine"}
AreaMilli(origin, s) == IF origin = "opt" THEN (IF s = "fine" THEN 4 ELSE 2250) ELSE (IF s = "fine" THEN 1234 ELSE 4750)
KOk(origin, s) == s \in {"valid", "fine", "edge"}
KMilli(origin, s) == IF origin = "opt" THEN (IF s = "valid" THEN 250 ELSE IF s = "fine" THEN 125 ELSE 1000)
                     ELSE (IF s = "valid" THEN 350 ELSE IF s = "fine" THEN 375 ELSE 0)

Red1Opt == <<100, 1100, 110>>
Red1Meta == <<200, 1200, 220>>
Red2Opt == <<150, 1150, 115>>
Red2Meta == <<250, 1250, 225>>
RedFile1 == <<300, 1300, 330>>       \* RED1 line of the user factors file; RED2 is not in the file
RedDefault == <<0, 1300, 300>>

States5 == {"absent", "valid", "fine", "edge", "range", "text"}
States3 == {"absent", "valid", "text"}
\* a RED1 / RED2 option may also be given with exactly the documented default (0, 1.3, 0.3): it is an option all the same
StatesOpt == States3 \cup {"default"}
Configs == [aopt : States5, ameta : States5, kopt : States5, kmeta : States5,
            lopt : {"absent", "PENINSULA"}, lmeta : {"absent", "CANARIAS", "MARTE"}, ffile : BOOLEAN,
            r1opt : StatesOpt, r1meta : States3, r2opt : StatesOpt, r2meta : States3]

Present(s) == s # "absent"

\* the value of a scalar parameter and its origin, when the run is not refused
Pick(opt, meta, optOk, metaOk, optVal, metaVal, def) ==
  IF Present(opt) THEN [origin |-> "usuario", milli |-> optVal]
  ELSE IF Present(meta) /\ metaOk THEN [origin |-> "metadatos", milli |-> metaVal]
  ELSE [origin |-> "predefinido", milli |-> def]

RedValue(opt, meta, optV, metaV, fileV) ==
  IF opt = "valid" THEN optV ELSE IF opt = "default" THEN <<0, 1300, 300>> ELSE IF meta = "valid" THEN metaV ELSE fileV

Allowed(c) ==
  LET refuse(code) == {[exit |-> code]}
      \* the option parser refuses -f together with -l (exit 1); --red1 / --red2 are accepted with -f
      \* and, being options, win over the file's RED1 / RED2 lines
      clapConflict == c.ffile /\ Present(c.lopt)
      optBad == (Present(c.kopt) /\ ~KOk("opt", c.kopt)) \/ (Present(c.aopt) /\ ~AreaOk("opt", c.aopt))
                \/ c.r1opt = "text" \/ c.r2opt = "text"
      noSource == ~c.ffile /\ ~Present(c.lopt) /\ ~Present(c.lmeta)
      badLoc == ~c.ffile /\ ~Present(c.lopt) /\ c.lmeta = "MARTE"
      \* metadata values that would be USED (no option) and are invalid: refused
      metaUsedBad == (~Present(c.aopt) /\ Present(c.ameta) /\ ~AreaOk("meta", c.ameta))
                     \/ (~Present(c.kopt) /\ Present(c.kmeta) /\ ~KOk("meta", c.kmeta))
      \* invalid area / k_exp metadata that a valid option would override: refused all the same; RED1/RED2 text: either
      metaSilentBad == (Present(c.aopt) /\ Present(c.ameta) /\ ~AreaOk("meta", c.ameta))
                       \/ (Present(c.kopt) /\ Present(c.kmeta) /\ ~KOk("meta", c.kmeta))
      redMetaBad == (c.r1opt = "absent" /\ c.r1meta = "text") \/ (c.r2opt = "absent" /\ c.r2meta = "text")
      a == Pick(c.aopt, c.ameta, TRUE, AreaOk("meta", c.ameta), AreaMilli("opt", c.aopt), AreaMilli("meta", c.ameta), 1000)
      k == Pick(c.kopt, c.kmeta, TRUE, KOk("meta", c.kmeta), KMilli("opt", c.kopt), KMilli("meta", c.kmeta), 0)
      fp == IF c.ffile THEN [origin |-> "archivo", param |-> "FILE"]
            ELSE IF Present(c.lopt) THEN [origin |-> "usuario", param |-> c.lopt]
            ELSE [origin |-> "metadatos", param |-> c.lmeta]
      r1file == IF c.ffile THEN RedFile1 ELSE RedDefault
      ok == [exit |-> 0, area |-> a, kexp |-> k, fp |-> fp,
             red1 |-> RedValue(c.r1opt, c.r1meta, Red1Opt, Red1Meta, r1file),
             red2 |-> RedValue(c.r2opt, c.r2meta, Red2Opt, Red2Meta, RedDefault),
             red1given |-> c.r1opt \in {"valid", "default"} \/ c.r1meta = "valid",
             red2given |-> c.r2opt \in {"valid", "default"} \/ c.r2meta = "valid"]
  IN IF clapConflict THEN refuse(1)
     ELSE IF optBad THEN refuse(65)
     ELSE IF noSource THEN refuse(64)
     ELSE IF badLoc THEN refuse(65)
     ELSE IF metaUsedBad THEN refuse(65)
     ELSE IF metaSilentBad THEN refuse(65)
     ELSE IF redMetaBad THEN refuse(65) \cup {ok}
     ELSE {ok}
=============================================================================
