----------------------------- MODULE Components -----------------------------
(***************************************************************************)
(* Normalisation of a parsed component list (src/components.rs:189-392)    *)
(* as a state machine.  The code visits the system ids of two HashSets in  *)
(* an order that changes on every call; here each visit is one action and  *)
(* the order is left open, so TLC explores every schedule:                 *)
(*                                                                         *)
(*   CompleteId(c, id)   one iteration of the loop of                      *)
(*                       complete_produced_for_onsite_generated_use(c)     *)
(*   AuxId(id)           one iteration of assign_aux_nepb_to_epb_services  *)
(*   Sort                sort_by_id (stable)                               *)
(*                                                                         *)
(* Values are exact rationals here (the proportional split of auxiliary    *)
(* energy produces thirds etc.).  A component list is a sequence of the    *)
(* records of EpbTypes with v a sequence of rationals.                     *)
(*                                                                         *)
(* Closed forms (what the properties promise, independent of the order):   *)
(*   Completion(data, c)   C05: per system and step max(0, use - declared) *)
(*   P_C06(before, after)  C06: the relation any auxiliary assignment must *)
(*                         satisfy (conservation per system and step, no   *)
(*                         negative share, proportionality to |Q| where    *)
(*                         the statement fixes it)                         *)
(***************************************************************************)
EXTENDS Rat, EpbTypes, TLC

ToRatComp(x) == [x EXCEPT !.v = [t \in 1..Len(x.v) |-> R(x.v[t])]]
ToRat(C) == [i \in 1..Len(C) |-> ToRatComp(C[i])]
NSteps(C) == IF Len(C) = 0 THEN 0 ELSE Len(C[1].v)

RSumAt(C, S, t) == SumSet(LAMBDA i : C[i].v[t], S)
RSumAll(C, S) == SumSet(LAMBDA i : SumSeq(C[i].v), S)
Ids(C, S) == {C[i].id : i \in S}

\* comment classes (the wording of the generated comments is not part of any property)
CompletionComment == "@completion"
AuxComment == "@aux"

(***************************************************************************)
(* complete_produced_for_onsite_generated_use, one id.  `env` is the set   *)
(* of indices of the components of carrier c as they were when the loop    *)
(* started (the code works on a clone taken before the loop).              *)
(***************************************************************************)
EnvIdx(C, c) == {i \in Idx(C) : (IsUsed(C[i]) \/ IsProd(C[i])) /\ CarrierOf(C[i]) = c}
CompleteIdOp(C, env, c, id) ==
  LET forId == {i \in env : C[i].id = id}
      prod == {i \in forId : IsProd(C[i])}
      used == {i \in forId : IsUsed(C[i])}
      N == NSteps(C)
      unb == [t \in 1..N |->
                IF prod = {} THEN RSumAt(C, used, t)
                ELSE RMax(Zero, RSub(RSumAt(C, used, t), RSumAt(C, prod, t)))]
  IN IF used = {} \/ RIsZero(SumSeq(unb)) THEN C
     ELSE Append(C, [kind |-> "PROD", id |-> id, cr |-> "-", srv |-> "-", src |-> c, v |-> unb,
                     cm |-> CompletionComment])

(***************************************************************************)
(* Demand lines (Components::from_str, BuildingNeeds::add): the DEMANDA    *)
(* lines of a file are read in file order and each one is added, step by   *)
(* step, to what is stored for its service; a service without any line has *)
(* no demand (<<>>).  One AddNeed per line; the closed form C05 promises   *)
(* is the step-wise sum of the declared lines of the service, whatever     *)
(* their order, sign or running total.  Values are plain integers here.    *)
(***************************************************************************)
NoNeeds == [s \in NeedSrv |-> <<>>]
AddNeed(st, x) ==
  [st EXCEPT ![x.srv] = IF @ = <<>> THEN x.v ELSE [t \in 1..Len(x.v) |-> @[t] + x.v[t]]]
RECURSIVE ReadNeeds(_, _)
ReadNeeds(st, lines) == IF lines = <<>> THEN st ELSE ReadNeeds(AddNeed(st, Head(lines)), Tail(lines))
DeclaredNeed(lines, s) ==
  LET I == {i \in 1..Len(lines) : lines[i].srv = s} IN
  IF I = {} THEN <<>> ELSE [t \in 1..Len(lines[CHOOSE i \in I : TRUE].v) |-> ISumSet(LAMBDA i : lines[i].v[t], I)]

\* ids the loop visits for carrier c
CompleteIds(C, c) == Ids(C, EnvIdx(C, c))

(***************************************************************************)
(* assign_aux_nepb_to_epb_services, one id.                                *)
(* Result: [ok |-> TRUE, data |-> C'] or [ok |-> FALSE] (WrongInput).      *)
(*  - exactly one service among the CONSUMO components of the system: the   *)
(*    system's AUX components get it, in place;                            *)
(*  - otherwise the system's auxiliary energy is shared, step by step, in  *)
(*    proportion to the magnitude |Q| of the energy delivered or absorbed  *)
(*    for each service (SALIDA components of the system); at a step where  *)
(*    the system delivers nothing it is shared by the annual magnitudes;   *)
(*    the system's AUX components are replaced by one per service.         *)
(*    Auxiliary energy without any output energy is a WrongInput.          *)
(***************************************************************************)
AuxIds(C) == Ids(C, {i \in Idx(C) : IsAux(C[i])})
SrvOfUses(C, id) == {C[i].srv : i \in {i \in Idx(C) : IsUsed(C[i]) /\ C[i].id = id}}
OutSrvs(C, id) == {C[i].srv : i \in {i \in Idx(C) : IsOut(C[i]) /\ C[i].id = id}}
\* order in which the new AUX components are appended: not specified (hash map keys)
RECURSIVE SetToSeqs(_)
SetToSeqs(S) == IF S = {} THEN {<<>>} ELSE UNION {{<<x>> \o q : q \in SetToSeqs(S \ {x})} : x \in S}

AuxShares(C, id) ==
  LET N == NSteps(C)
      auxI == {i \in Idx(C) : IsAux(C[i]) /\ C[i].id = id}
      auxTot == [t \in 1..N |-> RSumAt(C, auxI, t)]
      srvs == OutSrvs(C, id)
      q(s) == [t \in 1..N |-> RSumAt(C, {i \in Idx(C) : IsOut(C[i]) /\ C[i].id = id /\ C[i].srv = s}, t)]
      qabs(s, t) == RAbs(q(s)[t])
      qtot(t) == SumSet(LAMBDA s : qabs(s, t), srvs)
      qan(s) == SumSet(LAMBDA t : qabs(s, t), 1..N)
      qanTot == SumSet(LAMBDA s : qan(s), srvs)
      frac(s, t) == IF RPos(qtot(t)) THEN RDiv(qabs(s, t), qtot(t))
                    ELSE IF RPos(qanTot) THEN RDiv(qan(s), qanTot) ELSE Zero
  IN [auxTot |-> auxTot, srvs |-> srvs, qanTot |-> qanTot,
      share |-> [s \in srvs |-> [t \in 1..N |-> RMul(frac(s, t), auxTot[t])]]]

\* set of possible results (they differ only in the order of the appended components)
AuxIdOp(C, id) ==
  LET ss == SrvOfUses(C, id) IN
  IF Cardinality(ss) = 1
  THEN LET s == CHOOSE s \in ss : TRUE IN
       {[ok |-> TRUE, data |-> [i \in Idx(C) |-> IF IsAux(C[i]) /\ C[i].id = id THEN [C[i] EXCEPT !.srv = s] ELSE C[i]]]}
  ELSE LET sh == AuxShares(C, id) IN
       IF RPos(SumSeq(sh.auxTot)) /\ RIsZero(sh.qanTot) THEN {[ok |-> FALSE, data |-> C]}
       ELSE LET kept == SelectSeq(C, LAMBDA x : ~(IsAux(x) /\ x.id = id)) IN
            {[ok |-> TRUE,
              data |-> kept \o [k \in 1..Len(order) |->
                                  [kind |-> "AUX", id |-> id, cr |-> "-", srv |-> order[k], src |-> "-",
                                   v |-> sh.share[order[k]], cm |-> AuxComment]]] : order \in SetToSeqs(sh.srvs)}

(***************************************************************************)
(* sort_by_id: stable sort by system id                                    *)
(***************************************************************************)
RECURSIVE InsertSorted(_, _)
InsertSorted(q, x) ==
  IF q = <<>> THEN <<x>>
  ELSE IF x.id < Head(q).id THEN <<x>> \o q
  ELSE <<Head(q)>> \o InsertSorted(Tail(q), x)
RECURSIVE SortById(_)
SortById(C) == IF C = <<>> THEN <<>> ELSE InsertSorted(SortById(SubSeq(C, 1, Len(C) - 1)), C[Len(C)])
\* (inserting the last element after the sorted prefix, behind equal ids: stable)

(***************************************************************************)
(* Closed forms                                                            *)
(***************************************************************************)
Bag(C) == [x \in {C[i] : i \in Idx(C)} |-> Cardinality({i \in Idx(C) : C[i] = x})]

\* C05: the production components that normalisation must add for carrier c
Completion(C, c) ==
  LET N == NSteps(C)
      ids == Ids(C, {i \in Idx(C) : IsUsed(C[i]) /\ C[i].cr = c})
      use(id, t) == RSumAt(C, {i \in Idx(C) : IsUsed(C[i]) /\ C[i].cr = c /\ C[i].id = id}, t)
      decl(id, t) == RSumAt(C, {i \in Idx(C) : IsProd(C[i]) /\ C[i].src = c /\ C[i].id = id}, t)
      need(id) == [t \in 1..N |-> RMax(Zero, RSub(use(id, t), decl(id, t)))]
  IN {[kind |-> "PROD", id |-> id, cr |-> "-", srv |-> "-", src |-> c, v |-> need(id), cm |-> CompletionComment] :
        id \in {id \in ids : ~RIsZero(SumSeq(need(id)))}}

\* C06: relation between the list before and after auxiliary assignment, for system id.
\* Mixed cases the statement does not fix (a single EPB service next to NEPB / COGEN uses)
\* only have to conserve energy.
P_C06_Id(before, after, id) ==
  LET N == NSteps(before)
      auxB == {i \in Idx(before) : IsAux(before[i]) /\ before[i].id = id}
      auxA == {i \in Idx(after) : IsAux(after[i]) /\ after[i].id = id}
      ss == SrvOfUses(before, id)
      epbss == ss \cap EpbSrv
      sh == AuxShares(before, id)
      qabs(s, t) == RAbs(RSumAt(before, {i \in Idx(before) : IsOut(before[i]) /\ before[i].id = id /\ before[i].srv = s}, t))
      qtot(t) == SumSet(LAMBDA s : qabs(s, t), sh.srvs)
      afterOf(s, t) == RSumAt(after, {i \in auxA : after[i].srv = s}, t)
  IN /\ \A t \in 1..N : RSumAt(after, auxA, t) = RSumAt(before, auxB, t)              \* conservation
     /\ \A i \in auxA : \A t \in 1..N : RNonNeg(after[i].v[t])                         \* no negative share
     /\ (Cardinality(ss) = 1 /\ epbss = ss => \A i \in auxA : after[i].srv \in ss)     \* single service
     /\ (Cardinality(epbss) > 1 /\ epbss = ss =>                                       \* several services
           \A t \in 1..N : RPos(qtot(t)) =>
              \A s \in sh.srvs : RMul(afterOf(s, t), qtot(t)) = RMul(sh.auxTot[t], qabs(s, t)))
     /\ (epbss = ss /\ ss # {} => \A i \in auxA : after[i].srv \in EpbSrv)             \* counted as EPB use

\* other systems' components (auxiliaries included) are untouched, as bags
OthersUntouched(before, after, id) ==
  Bag(SelectSeq(before, LAMBDA x : ~(IsAux(x) /\ x.id = id))) = Bag(SelectSeq(after, LAMBDA x : ~(IsAux(x) /\ x.id = id)))
=============================================================================
