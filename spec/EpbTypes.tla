------------------------------ MODULE EpbTypes ------------------------------
(***************************************************************************)
(* Vocabulary of the cteepbd data model (src/types/*.rs): carriers,        *)
(* services, production sources, factor sources/destinations/steps and the *)
(* abstract shape of a component.                                          *)
(*                                                                         *)
(* A component is a record                                                 *)
(*    [kind, id, cr, srv, src, v, cm]                                      *)
(* kind \in {"USED","PROD","AUX","OUT","NEED"}; fields that do not apply   *)
(* hold "-" (id 0 for NEED); v is the sequence of per-step values and cm a *)
(* comment class (a string).  A component list is a sequence of those.     *)
(***************************************************************************)
EXTENDS Integers, Sequences, FiniteSets

Carriers == {"EAMBIENTE", "BIOCARBURANTE", "BIOMASA", "BIOMASADENSIFICADA", "CARBON",
             "ELECTRICIDAD", "GASNATURAL", "GASOLEO", "GLP", "RED1", "RED2", "TERMOSOLAR"}
Nearby == {"BIOMASA", "BIOMASADENSIFICADA", "RED1", "RED2", "EAMBIENTE", "TERMOSOLAR"}
Onsite == {"EAMBIENTE", "TERMOSOLAR"}
EpbSrv == {"ACS", "CAL", "REF", "VEN", "ILU"}
Services == EpbSrv \cup {"NEPB", "COGEN"}
NeedSrv == {"ACS", "CAL", "REF"}
ProdSources == {"EL_INSITU", "EL_COGEN", "TERMOSOLAR", "EAMBIENTE"}
Sources == {"RED", "INSITU", "COGEN"}
Dests == {"SUMINISTRO", "A_RED", "A_NEPB"}
StepsAB == {"A", "B"}

\* Source and carrier of a production source (From<ProdSource> in factor.rs / carrier.rs)
SrcOf(j) == IF j = "EL_COGEN" THEN "COGEN" ELSE "INSITU"
CrOf(j) == IF j \in {"EL_INSITU", "EL_COGEN"} THEN "ELECTRICIDAD" ELSE j

IsUsed(x) == x.kind = "USED"
IsProd(x) == x.kind = "PROD"
IsAux(x) == x.kind = "AUX"
IsOut(x) == x.kind = "OUT"
IsNeed(x) == x.kind = "NEED"
IsEnergy(x) == x.kind \in {"USED", "PROD", "AUX", "OUT"}

\* Energy::carrier(): production by its source, auxiliaries are always electricity
CarrierOf(x) ==
  IF IsUsed(x) THEN x.cr
  ELSE IF IsProd(x) THEN CrOf(x.src)
  ELSE IF IsAux(x) THEN "ELECTRICIDAD"
  ELSE "-"

IsEpbUse(x) == (IsUsed(x) \/ IsAux(x)) /\ x.srv \in EpbSrv
IsCgnUse(x) == IsUsed(x) /\ x.srv = "COGEN"
\* what compute_used_produced puts in the non-EPB bucket: anything of the carrier that is
\* neither production, EPB use nor cogeneration input
IsOtherUse(x) == (IsUsed(x) \/ IsAux(x)) /\ ~IsEpbUse(x) /\ ~IsCgnUse(x)
IsNepbUse(x) == (IsUsed(x) \/ IsAux(x)) /\ x.srv = "NEPB"
IsCgnPr(x) == IsProd(x) /\ x.src = "EL_COGEN"
IsOnsitePr(x) == IsProd(x) /\ x.src # "EL_COGEN"

Idx(C) == 1..Len(C)

Used(id, cr, srv, v) == [kind |-> "USED", id |-> id, cr |-> cr, srv |-> srv, src |-> "-", v |-> v, cm |-> ""]
Prod(id, src, v) == [kind |-> "PROD", id |-> id, cr |-> "-", srv |-> "-", src |-> src, v |-> v, cm |-> ""]
Aux(id, srv, v) == [kind |-> "AUX", id |-> id, cr |-> "-", srv |-> srv, src |-> "-", v |-> v, cm |-> ""]
Out(id, srv, v) == [kind |-> "OUT", id |-> id, cr |-> "-", srv |-> srv, src |-> "-", v |-> v, cm |-> ""]
Need(srv, v) == [kind |-> "NEED", id |-> 0, cr |-> "-", srv |-> srv, src |-> "-", v |-> v, cm |-> ""]

\* A weighting factor: key + triple of thousandths (ren, nren, co2), as printed by the tool
Fac(cr, src, dest, step, m) == [cr |-> cr, src |-> src, dest |-> dest, step |-> step, m |-> m]
Key(cr, src, dest, step) == <<cr, src, dest, step>>
KeyOf(f) == <<f.cr, f.src, f.dest, f.step>>
=============================================================================
