------------------------------ MODULE Factors ------------------------------
(***************************************************************************)
(* Weighting factor sets (src/wfactors.rs, src/cte.rs:154-181).            *)
(* A set is a *list* of Fac records; find / update / ensure act on the     *)
(* first match.  One operator per method of the code:                      *)
(*   Update, Ensure            update_wfactor / ensure_wfactor             *)
(*   SetUser                   set_user_wfactors (RED1 / RED2 overrides)   *)
(*   Normalize                 Factors::normalize, returns                 *)
(*                             [ok |-> TRUE, f |-> list] or [ok |-> FALSE] *)
(*   Strip                     Factors::strip                              *)
(*   FromList                  cte::wfactors_from_str / wfactors_from_loc  *)
(***************************************************************************)
EXTENDS Balance

Update(F, k, m) ==
  LET i == FindIdx(F, k, 1) IN
  IF i = 0 THEN Append(F, Fac(k[1], k[2], k[3], k[4], m))
  ELSE [F EXCEPT ![i].m = m]
Ensure(F, k, m) == IF Has(F, k) THEN F ELSE Append(F, Fac(k[1], k[2], k[3], k[4], m))

NoUser == <<>>   \* "not given"
SetUser(F, red1, red2) ==
  LET F1 == IF red1 = NoUser THEN F ELSE Update(F, Key("RED1", "RED", "SUMINISTRO", "A"), red1)
  IN IF red2 = NoUser THEN F1 ELSE Update(F1, Key("RED2", "RED", "SUMINISTRO", "A"), red2)

CarriersOf(F) == {F[i].cr : i \in 1..Len(F)}
Ren1 == <<1000, 0, 0>>
ExpCarriers == <<"ELECTRICIDAD", "EAMBIENTE", "TERMOSOLAR">>

\* one iteration of the export-defaults loop of normalize for carrier c.
\* A missing grid factor is an error only for a carrier the set really has (crs).
ExportDefaults(F, c, crs) ==
  LET ka == Key(c, "INSITU", "SUMINISTRO", "A")
      kr == Key(c, "RED", "SUMINISTRO", "A")
      F1 == IF Has(F, ka)
            THEN Ensure(Ensure(F, Key(c, "INSITU", "A_RED", "A"), FindM(F, ka)),
                        Key(c, "INSITU", "A_NEPB", "A"), FindM(F, ka))
            ELSE F
  IN IF Has(F1, kr)
     THEN [ok |-> TRUE,
           f |-> Ensure(Ensure(F1, Key(c, "INSITU", "A_RED", "B"), FindM(F1, kr)),
                        Key(c, "INSITU", "A_NEPB", "B"), FindM(F1, kr))]
     ELSE [ok |-> c \notin crs, f |-> F1]

Normalize(F0, defRed1, defRed2) ==
  LET crs == CarriersOf(F0)       \* collected before the forced updates
      F1 == Update(F0, Key("EAMBIENTE", "INSITU", "SUMINISTRO", "A"), Ren1)
      F2 == Update(F1, Key("EAMBIENTE", "RED", "SUMINISTRO", "A"), Ren1)
      F3 == Update(F2, Key("TERMOSOLAR", "INSITU", "SUMINISTRO", "A"), Ren1)
      F4 == Update(F3, Key("TERMOSOLAR", "RED", "SUMINISTRO", "A"), Ren1)
      F5 == IF "ELECTRICIDAD" \in crs
            THEN Update(F4, Key("ELECTRICIDAD", "INSITU", "SUMINISTRO", "A"), Ren1) ELSE F4
      gridOk == \A c \in crs : Has(F5, Key(c, "RED", "SUMINISTRO", "A"))
      e1 == ExportDefaults(F5, ExpCarriers[1], crs)
      e2 == ExportDefaults(e1.f, ExpCarriers[2], crs)
      e3 == ExportDefaults(e2.f, ExpCarriers[3], crs)
  IN IF ~gridOk \/ ~e1.ok \/ ~e2.ok \/ ~e3.ok THEN [ok |-> FALSE, f |-> <<>>]
     ELSE [ok |-> TRUE,
           f |-> Ensure(Ensure(e3.f, Key("RED1", "RED", "SUMINISTRO", "A"), defRed1),
                        Key("RED2", "RED", "SUMINISTRO", "A"), defRed2)]

DefaultRedM == <<0, 1300, 300>>
FromList(F, red1, red2) == Normalize(SetUser(F, red1, red2), DefaultRedM, DefaultRedM)

(***************************************************************************)
(* Factors::strip: keeps the factors of the balanced carriers; COGEN       *)
(* factors only with cogenerated electricity; A_NEPB factors only with     *)
(* some use that the balance books as non-EPB (IsOtherUse: any use or      *)
(* auxiliary that is neither an EPB use nor a cogeneration input - e.g.    *)
(* the auxiliaries of a system whose only consumption is cogeneration      *)
(* fuel); on-site electricity factors only with on-site electricity        *)
(* production.                                                             *)
(***************************************************************************)
SelectF(F, P(_)) == SelectSeq(F, P)
Strip(F, C) ==
  LET crs == Avail(C)
      hasCgn == \E i \in Idx(C) : IsCgnPr(C[i])
      hasNepb == \E i \in Idx(C) : IsOtherUse(C[i])
      hasElOn == \E i \in Idx(C) : IsOnsitePr(C[i]) /\ CarrierOf(C[i]) = "ELECTRICIDAD"
      keep(f) == /\ f.cr \in crs
                 /\ (f.src # "COGEN" \/ hasCgn)
                 /\ (f.dest # "A_NEPB" \/ hasNepb)
                 /\ (f.cr # "ELECTRICIDAD" \/ f.src # "INSITU" \/ hasElOn)
  IN SelectSeq(F, keep)

Keys(F) == {KeyOf(F[i]) : i \in 1..Len(F)}

(***************************************************************************)
(* Factors::to_nearby: the factors of grid-supplied carriers that are not  *)
(* in the nearby list count all their primary energy as non renewable      *)
(* (ren' = 0, nren' = ren + nren); on-site and cogeneration factors and    *)
(* the nearby carriers are unchanged.                                      *)
(***************************************************************************)
ToNearby(F, nearby) ==
  [i \in 1..Len(F) |->
     IF F[i].src \in {"INSITU", "COGEN"} \/ F[i].cr \in nearby THEN F[i]
     ELSE [F[i] EXCEPT !.m = <<0, F[i].m[1] + F[i].m[2], F[i].m[3]>>]]
=============================================================================
