------------------------------- MODULE Faults -------------------------------
(***************************************************************************)
(* Token-level corruption of a text file for C16.  A file is a sequence of *)
(* lines, a line a sequence of fields (atomic strings; the writer of the   *)
(* harness joins fields with "," and lines with newline).  The actions     *)
(* below are the faults the property quantifies over: dropped, duplicated, *)
(* truncated, reordered or replaced fields and lines, missing / extra      *)
(* commas, wrong lengths, with replacement tokens drawn from an alphabet   *)
(* of atoms chosen per token class (non-numeric and non-finite numbers,    *)
(* unknown or misplaced tags, non-ASCII text, an invalid UTF-8 byte).      *)
(* TLC prints non-ASCII characters as "?", so two atoms are placeholders   *)
(* the writers expand: "<NA>" = two non-ASCII characters, "<FF>" = the raw *)
(* byte 0xFF.                                                              *)
(* TLC enumerates every sequence of faults up to a depth.                  *)
(***************************************************************************)
EXTENDS Integers, Sequences, FiniteSets

Atoms == {"", "abc", "<NA>", "NaN", "inf", "-inf", "1e39", "-0", "1e-46", "007", "+1", "1.", "#",
          "CONSUMO", "SALIDA", "DEMANDA", "AUX", "COGEN", "EL_COGEN", "vector", "<FF>"}

RemoveAt(s, j) == SubSeq(s, 1, j - 1) \o SubSeq(s, j + 1, Len(s))
InsertAt(s, j, x) == SubSeq(s, 1, j - 1) \o <<x>> \o SubSeq(s, j, Len(s))

DropField(f, i, j) == [f EXCEPT ![i] = RemoveAt(f[i], j)]
DupField(f, i, j) == [f EXCEPT ![i] = InsertAt(f[i], j, f[i][j])]
TruncateLine(f, i, k) == [f EXCEPT ![i] = SubSeq(f[i], 1, k)]
SwapFields(f, i, j) == [f EXCEPT ![i] = [f[i] EXCEPT ![j] = f[i][j + 1], ![j + 1] = f[i][j]]]
ReplaceField(f, i, j, tok) == [f EXCEPT ![i][j] = tok]
DropLine(f, i) == RemoveAt(f, i)
DupLine(f, i) == InsertAt(f, i, f[i])
SwapLines(f, i) == [f EXCEPT ![i] = f[i + 1], ![i + 1] = f[i]]
\* a missing comma glues two fields together (with a blank), an extra one makes an empty field
\* (next to an empty field the missing comma just removes the empty field)
Glue(a, b) == IF a = "" THEN b ELSE IF b = "" THEN a ELSE a \o " " \o b
DropComma(f, i, j) == [f EXCEPT ![i] = SubSeq(f[i], 1, j - 1) \o <<Glue(f[i][j], f[i][j + 1])>> \o SubSeq(f[i], j + 2, Len(f[i]))]
ExtraComma(f, i, j) == [f EXCEPT ![i] = InsertAt(f[i], j, "")]
\* one value more / one value less on one line (the other lines keep their length)
Longer(f, i) == [f EXCEPT ![i] = Append(f[i], "1")]
Shorter(f, i) == [f EXCEPT ![i] = SubSeq(f[i], 1, Len(f[i]) - 1)]

\* all single faults of a file, restricted to the lines in Ls and the atoms in As
Faults1(f, Ls, As) ==
  UNION {
    {DropField(f, i, j) : j \in 1..Len(f[i])}
    \cup {DupField(f, i, j) : j \in 1..Len(f[i])}
    \cup {TruncateLine(f, i, k) : k \in 0..(Len(f[i]) - 1)}
    \cup {SwapFields(f, i, j) : j \in 1..(Len(f[i]) - 1)}
    \cup {ReplaceField(f, i, j, tok) : j \in 1..Len(f[i]), tok \in As}
    \cup {DropComma(f, i, j) : j \in 1..(Len(f[i]) - 1)}
    \cup {ExtraComma(f, i, j) : j \in 1..(Len(f[i]) + 1)}
    \cup {Longer(f, i), Shorter(f, i), DropLine(f, i), DupLine(f, i)}
    \cup (IF i < Len(f) THEN {SwapLines(f, i)} ELSE {})
    : i \in {i \in 1..Len(f) : i \in Ls /\ Len(f[i]) > 0}}
=============================================================================
