-------------------------------- MODULE Flat --------------------------------
(***************************************************************************)
(* Projection of an Evaluate() result to the observation vocabulary of the *)
(* conformance harness: a set of <<path, integer>> pairs, where path is    *)
(* the dotted name of a field of the EnergyPerformance struct and the      *)
(* integer is the exact value in the logging unit (10^-p kWh for absolute  *)
(* figures, 10^-pm for per-m2 figures, 10^-6 for ratios).                  *)
(* This is the "same projection function" both binding directions use.     *)
(***************************************************************************)
EXTENDS Balance

D(a, b) == a \o "." \o b
D3(a, b, c) == a \o "." \o b \o "." \o c
S(t) == ToString(t)

PVecR(pre, f, p) == {<<D(pre, S(t)), Scaled(f[t], p)>> : t \in DOMAIN f}
PVecI(pre, f, p) == {<<D(pre, S(t)), f[t] * Pow10(p)>> : t \in DOMAIN f}
PT(pre, x, p) == {<<D(pre, "ren"), Scaled(x[1], p)>>, <<D(pre, "nren"), Scaled(x[2], p)>>,
                  <<D(pre, "co2"), Scaled(x[3], p)>>}

FlatCr(c, b, p) ==
  LET pre == D("cr", c)  up == b.up  ed == b.ed  an == b.an  we == b.we
      u(x) == D3(pre, "used", x)  pr(x) == D3(pre, "prod", x)
      ex(x) == D3(pre, "exp", x)  de(x) == D3(pre, "del", x)  w(x) == D3(pre, "we", x)
  IN PVecR(D(pre, "f_match"), up.fm, 6)
     \cup PVecI(u("epus_t"), up.epus, p) \cup {<<u("epus_an"), an.epus * Pow10(p)>>}
     \cup UNION {PVecI(D(u("epus_by_srv_t"), s), up.epusS[s], p) : s \in up.srvs}
     \cup {<<D(u("epus_by_srv_an"), s), an.epusS[s] * Pow10(p)>> : s \in up.srvs}
     \cup PVecI(u("nepus_t"), up.nepus, p) \cup {<<u("nepus_an"), an.nepus * Pow10(p)>>}
     \cup PVecI(u("cgnus_t"), up.cgnus, p) \cup {<<u("cgnus_an"), an.cgnus * Pow10(p)>>}
     \cup PVecI(pr("t"), up.pr, p) \cup {<<pr("an"), an.pr * Pow10(p)>>}
     \cup UNION {PVecI(D(pr("by_src_t"), j), up.prJ[j], p) : j \in up.srcs}
     \cup {<<D(pr("by_src_an"), j), an.prJ[j] * Pow10(p)>> : j \in up.srcs}
     \cup PVecR(pr("epus_t"), up.used, p) \cup {<<pr("epus_an"), Scaled(an.used, p)>>}
     \cup UNION {PVecR(D(pr("epus_by_src_t"), j), up.usedJ[j], p) : j \in up.srcs}
     \cup {<<D(pr("epus_by_src_an"), j), Scaled(an.usedJ[j], p)>> : j \in up.srcs}
     \cup UNION {PVecR(D3(pr("epus_by_srv_by_src_t"), j, s), up.usedJS[j][s], p) : j \in up.srcs, s \in up.srvs}
     \cup {<<D3(pr("epus_by_srv_by_src_an"), j, s), Scaled(an.usedJS[j][s], p)>> : j \in up.srcs, s \in up.srvs}
     \cup PVecR(ex("t"), ed.exp, p) \cup {<<ex("an"), Scaled(an.exp, p)>>}
     \cup PVecR(ex("grid_t"), ed.expG, p) \cup {<<ex("grid_an"), Scaled(an.expG, p)>>}
     \cup PVecR(ex("nepus_t"), ed.expN, p) \cup {<<ex("nepus_an"), Scaled(an.expN, p)>>}
     \cup UNION {PVecR(D(ex("by_src_t"), j), ed.expJ[j], p) : j \in up.srcs}
     \cup {<<D(ex("by_src_an"), j), Scaled(an.expJ[j], p)>> : j \in up.srcs}
     \cup {<<de("an"), Scaled(an.del, p)>>}
     \cup PVecR(de("grid_t"), ed.del, p) \cup {<<de("grid_an"), Scaled(an.delG, p)>>}
     \cup PVecI(de("onst_t"), ed.onst, p) \cup {<<de("onst_an"), an.onst * Pow10(p)>>}
     \cup PVecI(de("cgn_t"), up.cgnus, p) \cup {<<de("cgn_an"), an.cgnus * Pow10(p)>>}
     \cup PT(w("a"), we.a, p) \cup PT(w("b"), we.b, p)
     \cup UNION {PT(D(w("a_by_srv"), s), we.a_by_srv[s], p) : s \in up.srvs}
     \cup UNION {PT(D(w("b_by_srv"), s), we.b_by_srv[s], p) : s \in up.srvs}
     \cup PT(w("del"), we.del, p) \cup PT(w("del_grid"), we.del_grid, p)
     \cup PT(w("del_onst"), we.del_onst, p) \cup PT(w("del_cgn"), we.del_cgn, p)
     \cup PT(w("exp"), we.exp, p) \cup PT(w("exp_a"), we.exp_a, p)
     \cup PT(w("exp_nepus_a"), we.exp_nepus_a, p) \cup PT(w("exp_grid_a"), we.exp_grid_a, p)
     \cup PT(w("exp_ab"), we.exp_ab, p) \cup PT(w("exp_nepus_ab"), we.exp_nepus_ab, p)
     \cup PT(w("exp_grid_ab"), we.exp_grid_ab, p)

\* the global balance, scaled by sc (One for absolute, 1/area for per m2) at exponent p
FlatBal(pre, b, sc, p) ==
  LET q(x) == Scaled(RMul(x, sc), p)
      qt(path, x) == PT(path, TScale(x, sc), p)
      f(a, x) == D3(pre, a, x)
  IN {<<f("needs", s), q(b.needs[s])>> : s \in DOMAIN b.needs}
     \cup {<<f("used", "epus"), q(b.used_epus)>>, <<f("used", "nepus"), q(b.used_nepus)>>,
           <<f("used", "cgnus"), q(b.used_cgnus)>>}
     \cup {<<D(f("used", "epus_by_srv"), s), q(b.used_epus_by_srv[s])>> : s \in DOMAIN b.used_epus_by_srv}
     \cup {<<D(f("used", "epus_by_cr"), c), q(b.used_epus_by_cr[c])>> : c \in DOMAIN b.used_epus_by_cr}
     \cup UNION {{<<D3(f("used", "epus_by_cr_by_srv"), s, c), q(b.used_epus_by_cr_by_srv[s][c])>> :
                    c \in DOMAIN b.used_epus_by_cr_by_srv[s]} : s \in DOMAIN b.used_epus_by_cr_by_srv}
     \cup {<<f("prod", "an"), q(b.prod_an)>>}
     \cup {<<D(f("prod", "by_cr"), c), q(b.prod_by_cr[c])>> : c \in DOMAIN b.prod_by_cr}
     \cup {<<D(f("prod", "by_src"), j), q(b.prod_by_src[j])>> : j \in DOMAIN b.prod_by_src}
     \cup {<<D(f("prod", "epus_by_src"), j), q(b.prod_epus_by_src[j])>> : j \in DOMAIN b.prod_epus_by_src}
     \cup UNION {{<<D3(f("prod", "epus_by_srv_by_src"), j, s), q(b.prod_epus_by_srv_by_src[j][s])>> :
                    s \in DOMAIN b.prod_epus_by_srv_by_src[j]} : j \in DOMAIN b.prod_epus_by_srv_by_src}
     \cup {<<f("del", "an"), q(b.del_an)>>, <<f("del", "onst"), q(b.del_onst)>>, <<f("del", "grid"), q(b.del_grid)>>}
     \cup {<<D(f("del", "grid_by_cr"), c), q(b.del_grid_by_cr[c])>> : c \in DOMAIN b.del_grid_by_cr}
     \cup {<<f("exp", "an"), q(b.exp_an)>>, <<f("exp", "grid"), q(b.exp_grid)>>, <<f("exp", "nepus"), q(b.exp_nepus)>>}
     \cup qt(f("we", "a"), b.we_a) \cup qt(f("we", "b"), b.we_b)
     \cup UNION {qt(D(f("we", "a_by_srv"), s), b.we_a_by_srv[s]) : s \in DOMAIN b.we_a_by_srv}
     \cup UNION {qt(D(f("we", "b_by_srv"), s), b.we_b_by_srv[s]) : s \in DOMAIN b.we_b_by_srv}
     \cup qt(f("we", "del"), b.we_del) \cup qt(f("we", "exp_a"), b.we_exp_a) \cup qt(f("we", "exp"), b.we_exp)

\* every field except the three RER ratios (compared separately, with a ratio tolerance)
FlatResult(r, p, pm) ==
  UNION {FlatCr(c, r.cr[c], p) : c \in r.crs}
  \cup FlatBal("bal", r.bal, One, p)
  \cup FlatBal("m2", r.bal, RInv(r.area), pm)
=============================================================================
