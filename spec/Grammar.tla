------------------------------- MODULE Grammar -------------------------------
(***************************************************************************)
(* The grammar of a components file at token level, as the parser applies  *)
(* it (src/components.rs:97-165 and the FromStr of EUsed, EProd, EAux,     *)
(* EOut, Needs, Meta), on the token files of spec/Faults.tla: a file is a  *)
(* sequence of lines, a line a sequence of atomic fields.  ParseClass      *)
(* predicts whether str::parse::<Components> gets past the line grammar:   *)
(*     "ParseError"   some line is refused, or the lengths differ          *)
(*     "Parsed"       every line is read (the normalisation that follows   *)
(*                    may still refuse the set with WrongInput)            *)
(*     "Unknown"      a field is outside the token universe (two fields    *)
(*                    glued by a dropped comma): no prediction             *)
(* Token classes are tables over the universe (TLC strings are atomic).    *)
(***************************************************************************)
EXTENDS Integers, Sequences, FiniteSets

CTypes == {"CONSUMO", "PRODUCCION", "AUX", "SALIDA", "DEMANDA"}
ServicesT == {"ACS", "CAL", "REF", "VEN", "ILU", "NEPB", "COGEN"}
EpbT == {"ACS", "CAL", "REF", "VEN", "ILU"}
CarriersT == {"EAMBIENTE", "BIOCARBURANTE", "BIOMASA", "BIOMASADENSIFICADA", "CARBON", "ELECTRICIDAD", "GASNATURAL",
              "GASOLEO", "GLP", "RED1", "RED2", "TERMOSOLAR"}
SourcesT == {"EL_INSITU", "EL_COGEN", "TERMOSOLAR", "EAMBIENTE"}
\* numeric spellings of the universe
IntToks == {"0", "1", "2", "3", "4", "5", "6", "8", "9", "10", "12", "-9", "-0", "007", "+1"}
F32Toks == IntToks \cup {"NaN", "inf", "-inf", "1e39", "1e-46", "1."}
\* fields that start a comment (everything from the first '#' of a line is a comment)
MetaToks == {"#META CTE_AREAREF: 10", "#META CTE_FUENTE: x"}
HashToks == {"#"} \cup MetaToks
Others == {"", "abc", "<NA>", "vector", "<FF>"}
\* tokens of factor files
FSourcesT == {"RED", "INSITU", "COGEN"}
FDestsT == {"SUMINISTRO", "A_RED", "A_NEPB"}
FStepsT == {"A", "B"}
DecToks == {"0.5", "2.0", "0.4", "0.0", "1.1", "0.2", "0.1", "0.3", "2.2"}
NumToks == F32Toks \cup DecToks
Universe == CTypes \cup ServicesT \cup CarriersT \cup SourcesT \cup NumToks \cup HashToks \cup Others
            \cup FSourcesT \cup FDestsT \cup FStepsT

\* the fields of a line that are left after the comment is cut (the field holding '#' keeps its empty prefix)
RECURSIVE CutComment(_)
CutComment(fs) ==
  IF fs = <<>> THEN <<>>
  ELSE IF Head(fs) \in HashToks THEN <<"">>
  ELSE <<Head(fs)>> \o CutComment(Tail(fs))

AllF32(q) == \A i \in 1..Len(q) : q[i] \in NumToks
From(q, k) == SubSeq(q, k, Len(q))

\* one data line: number of values if it is read, -1 if refused; kind returned to check equal lengths
LineKind(fs) ==
  LET t1 == IF Len(fs) >= 2 THEN fs[1] ELSE ""
      t2 == IF Len(fs) >= 2 THEN fs[2] ELSE ""
  IN IF t1 \in CTypes THEN t1 ELSE IF t2 \in CTypes THEN t2 ELSE "none"

ParseLineLen(fs) ==
  LET kind == LineKind(fs)
      it == CutComment(fs)
      n == Len(it)
      hasId == n >= 1 /\ it[1] \in IntToks
      b == IF hasId THEN 2 ELSE 1
  IN CASE kind = "none" -> -1
       [] kind = "CONSUMO" ->
            IF n >= 4 /\ it[b] = "CONSUMO" /\ it[b + 1] \in ServicesT /\ it[b + 2] \in CarriersT /\ AllF32(From(it, b + 3)) THEN n - (b + 2) ELSE -1
       [] kind = "PRODUCCION" ->
            IF n >= 3 /\ it[b] = "PRODUCCION" /\ it[b + 1] \in SourcesT /\ AllF32(From(it, b + 2)) THEN n - (b + 1) ELSE -1
       [] kind = "AUX" ->
            IF n >= 2 /\ it[b] = "AUX" /\ AllF32(From(it, b + 1)) THEN n - b ELSE -1
       [] kind = "SALIDA" ->
            IF n >= 4 /\ it[2] = "SALIDA" /\ it[1] \in IntToks /\ it[3] \in EpbT /\ AllF32(From(it, 4)) THEN n - 3 ELSE -1
       [] OTHER ->   \* DEMANDA
            IF n >= 3 /\ it[1] = "DEMANDA" /\ it[2] \in {"CAL", "REF", "ACS"} /\ AllF32(From(it, 3)) THEN n - 2 ELSE -1

\* line classification of FromStr for Components
IsSkipped(fs) == fs = <<>> \/ (Len(fs) = 1 /\ fs[1] = "") \/ fs[1] \in HashToks \/ (fs[1] = "vector" /\ Len(fs) >= 2)
Known(file) == \A i \in 1..Len(file) : \A j \in 1..Len(file[i]) : file[i][j] \in Universe

ParseClass(file) ==
  IF ~Known(file) THEN "Unknown"
  ELSE LET data == {i \in 1..Len(file) : ~IsSkipped(file[i])}
           lens == [i \in data |-> ParseLineLen(file[i])]
           energy == {i \in data : LineKind(file[i]) \in {"CONSUMO", "PRODUCCION", "AUX", "SALIDA"}}
       IN IF \E i \in data : lens[i] < 0 THEN "ParseError"
          ELSE IF \E i, j \in energy : lens[i] # lens[j] THEN "ParseError"
          ELSE "Parsed"

(***************************************************************************)
(* The grammar of a factors file (FromStr of Factors and Factor,           *)
(* src/wfactors.rs:562-581, src/types/factor.rs:119-153): blank lines,     *)
(* remark lines and a header line starting with "vector," are skipped,     *)
(* metadata lines are read, every other line needs at least seven fields   *)
(* before its comment - carrier, source, destination, step and three       *)
(* numbers; further fields are ignored.                                    *)
(***************************************************************************)
FactorLineOk(fs) ==
  LET it == CutComment(fs) IN
  /\ Len(it) >= 7
  /\ it[1] \in CarriersT /\ it[2] \in FSourcesT /\ it[3] \in FDestsT /\ it[4] \in FStepsT
  /\ it[5] \in NumToks /\ it[6] \in NumToks /\ it[7] \in NumToks
FactorsParseClass(file) ==
  IF ~Known(file) THEN "Unknown"
  ELSE LET data == {i \in 1..Len(file) : ~IsSkipped(file[i])} IN
       IF \E i \in data : ~FactorLineOk(file[i]) THEN "ParseError" ELSE "Parsed"
=============================================================================
