------------------------------ MODULE MetaDefs ------------------------------
(***************************************************************************)
(* Metadata of a set of components or of a set of factors                  *)
(* (src/types/tmeta.rs: struct Meta, trait MetaVec; the #META lines of     *)
(* Components::from_str / Factors::from_str and of their Display).         *)
(* Constant-level part: the store is a SEQUENCE of <<key, value>> pairs,   *)
(* in the order of the file; keys may repeat.                              *)
(*                                                                         *)
(*   Load(lines)    what a parser makes of the metadata lines of a text:   *)
(*                  every line kept, in order, repeated keys too; the      *)
(*                  three legacy key names mapped to their CTE_ names;     *)
(*                  the value trimmed                                      *)
(*   Get(s, k)      the value of the FIRST entry with key k                *)
(*   Set(s, k, v)   the first entry with key k gets the value v, in place; *)
(*                  without such an entry <<k, v>> is appended             *)
(*   PrintMeta(s)    one line "#META key: value" per entry, in order        *)
(*   Reload(s)      Load(Print(s)): what save + read back gives            *)
(*                                                                         *)
(* A metadata line is [pre, k, v]: pre = "META" ("#META k: v") or "CTE"    *)
(* (the old spelling "#CTE_k: v": the parser drops five bytes either way,  *)
(* so "#CTE_Area_ref: 1" is the key Area_ref -> CTE_AREAREF, and           *)
(* "#CTE_AREAREF: 1" is the key AREAREF, which nothing reads).             *)
(* Strings are atoms for TLC: trimming is a table over the value alphabet. *)
(***************************************************************************)
EXTENDS Sequences, Integers, FiniteSets

Legacy(k) == CASE k = "Localizacion" -> "CTE_LOCALIZACION"
               [] k = "Area_ref" -> "CTE_AREAREF"
               [] k = "kexp" -> "CTE_KEXP"
               [] OTHER -> k

\* values with blanks around them (atoms of the alphabet): the parser trims them
TrimOf(v) == CASE v = " 7 " -> "7" [] v = "8 " -> "8" [] OTHER -> v

NoValue == "<none>"
Positions(s, k) == {i \in 1..Len(s) : s[i][1] = k}
Has(s, k) == Positions(s, k) # {}
FirstPos(s, k) == CHOOSE i \in Positions(s, k) : \A j \in Positions(s, k) : i <= j
Get(s, k) == IF Has(s, k) THEN s[FirstPos(s, k)][2] ELSE NoValue
Set(s, k, v) == IF Has(s, k) THEN [s EXCEPT ![FirstPos(s, k)] = <<k, v>>] ELSE Append(s, <<k, v>>)

LoadLine(ln) == <<Legacy(ln.k), TrimOf(ln.v)>>
Load(lines) == [i \in 1..Len(lines) |-> LoadLine(lines[i])]
PrintMeta(s) == [i \in 1..Len(s) |-> [pre |-> "META", k |-> s[i][1], v |-> s[i][2]]]
Reload(s) == Load(PrintMeta(s))

\* Load on <<key, value>> pairs whose values are not strings (projected values): only the keys are mapped
LoadKeys(ps) == [i \in 1..Len(ps) |-> <<Legacy(ps[i][1]), ps[i][2]>>]
KeysOf(s) == {s[i][1] : i \in 1..Len(s)}
\* the entries of s whose key is not k, in order (what Set(s, k, v) must leave alone)
Others(s, k) == SelectSeq(s, LAMBDA e : e[1] # k)
\* fold of Set over a sequence of <<key, value>> updates
RECURSIVE SetAll(_, _)
SetAll(s, ups) == IF ups = <<>> THEN s ELSE SetAll(Set(s, Head(ups)[1], Head(ups)[2]), Tail(ups))

(***************************************************************************)
(* What the command line program records (src/bin/cteepbd.rs, main): the   *)
(* metadata of the components it was given, then - in this order - Set of  *)
(* CTE_RED1 and CTE_RED2 (only when a value was given by option or         *)
(* metadata), CTE_LOCALIZACION (only when the factors come from a          *)
(* location), CTE_AREAREF and CTE_KEXP (always).  `ups` is that list.      *)
(***************************************************************************)
Recorded(input, ups) == SetAll(input, ups)
=============================================================================
