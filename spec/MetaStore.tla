----------------------------- MODULE MetaStore -----------------------------
(***************************************************************************)
(* The metadata store of a Components / Factors value as a state machine.  *)
(* One action per operation of the code:                                   *)
(*   LoadText(lines)   Components::from_str / Factors::from_str on a text  *)
(*                     with these metadata lines (a NEW value replaces     *)
(*                     the store)                                          *)
(*   SetMeta(k, v)     MetaVec::set_meta                                   *)
(*   SaveReload        to_string() then from_str(): --oc / --of and a      *)
(*                     later run that reads the file                       *)
(* get_meta / has_meta are the queries Get / Has of MetaDefs.              *)
(* `last` records the operation just made so that what each operation      *)
(* promises can be stated as a state invariant on (old store, operation,   *)
(* new store); `prev` is the store before it.                              *)
(***************************************************************************)
EXTENDS MetaDefs

CONSTANTS Keys,       \* keys used by SetMeta
          RawKeys,    \* keys as written in files (legacy names included)
          Vals,       \* values (some with blanks around them)
          MaxLines    \* longest metadata block of a loaded text

VARIABLES store, prev, last
vars == <<store, prev, last>>

Lines == [pre : {"META", "CTE"}, k : RawKeys, v : Vals]
Texts == UNION {[1..n -> Lines] : n \in 0..MaxLines}

Init == store = <<>> /\ prev = <<>> /\ last = [op |-> "init"]

LoadText(t) == /\ store' = Load(t) /\ prev' = store /\ last' = [op |-> "load", lines |-> t]
SetMeta(k, v) == /\ store' = Set(store, k, v) /\ prev' = store /\ last' = [op |-> "set", k |-> k, v |-> v]
SaveReload == /\ store' = Reload(store) /\ prev' = store /\ last' = [op |-> "reload"]

Next == (\E t \in Texts : LoadText(t)) \/ (\E k \in Keys, v \in Vals : SetMeta(k, v)) \/ SaveReload
Spec == Init /\ [][Next]_vars

(***************************************************************************)
(* What the operations promise                                             *)
(***************************************************************************)
\* set_meta(k, v): k then reads v; every other key reads what it read before; the entries keep their order and
\* the store grows by one entry exactly when k was new; doing it twice is doing it once
SetPost ==
  last.op = "set" =>
    /\ Get(store, last.k) = last.v
    /\ \A k \in KeysOf(prev) \cup Keys : k # last.k => Get(store, k) = Get(prev, k)
    /\ Others(store, last.k) = Others(prev, last.k)
    /\ Len(store) = Len(prev) + (IF Has(prev, last.k) THEN 0 ELSE 1)
    /\ Cardinality(Positions(store, last.k)) = (IF Has(prev, last.k) THEN Cardinality(Positions(prev, last.k)) ELSE 1)
    /\ Set(store, last.k, last.v) = store
\* a loaded text: one entry per metadata line, in the order of the file, legacy names mapped, values trimmed
LoadPost ==
  last.op = "load" =>
    /\ Len(store) = Len(last.lines)
    /\ \A i \in 1..Len(store) : store[i] = <<Legacy(last.lines[i].k), TrimOf(last.lines[i].v)>>
\* C18: the metadata survive being written out and read back - every store the operations can reach from a
\* parsed text with trimmed SetMeta values is a fixed point of save + reload; a value set with blanks around it
\* comes back trimmed (and is then a fixed point)
Trimmed(s) == \A i \in 1..Len(s) : TrimOf(s[i][2]) = s[i][2]
\* (a legacy key name can only get into a store through set_meta - no parser produces one - and is renamed by the
\* next reload: found by TLC on the thorough configuration, whose Keys include "Area_ref")
NoLegacyIn(s) == \A i \in 1..Len(s) : Legacy(s[i][1]) = s[i][1]
ReloadPost ==
  last.op = "reload" =>
    /\ Len(store) = Len(prev)
    /\ \A i \in 1..Len(store) : store[i][1] = Legacy(prev[i][1]) /\ store[i][2] = TrimOf(prev[i][2])
    /\ (Trimmed(prev) /\ NoLegacyIn(prev) => store = prev)
    /\ Reload(store) = store
\* no operation produces a legacy key name (they only exist in files)
NoLegacyKey == \A i \in 1..Len(store) : store[i][1] \notin {"Localizacion", "Area_ref", "kexp"} \/ store[i][1] \in Keys
TypeOk == store \in Seq((Keys \cup {Legacy(k) : k \in RawKeys}) \X {TrimOf(v) : v \in Vals} \cup (Keys \X Vals))
=============================================================================
