------------------------------- MODULE Output -------------------------------
(***************************************************************************)
(* The three renderings of a result as token streams (src/asctexml.rs,     *)
(* src/asplain.rs, serde derives), produced by the lexers of the harness.  *)
(*                                                                         *)
(* XML: tokens <<"O", name>>, <<"C", name>>, <<"T", text [, P, d]>>,       *)
(* <<"K", comment>>, <<"B", what>>.  XmlAccept is a pushdown acceptor:     *)
(* a closing tag must match the top of the stack, text needs an open       *)
(* element, the document is one BalanceEPB element, no bad construct.      *)
(* XmlLeaves gives the numeric leaves with their element path.             *)
(*                                                                         *)
(* Plain report: entries <<section, key, field, P, d>> (positional, see    *)
(* harness/src/lex.rs); PlainTable maps each entry to the path of the      *)
(* per-m2 balance it prints.                                               *)
(*                                                                         *)
(* Escaping of free text (comments, metadata) at atom level: EscapeAtom.   *)
(* "<NT>" and "<EU>" stand for n-tilde and the euro sign (TLC prints       *)
(* non-ASCII characters as "?"; the harness expands the placeholders);     *)
(* "<C1>" and "<VT>" stand for the control characters U+0001 and U+000B,   *)
(* which are not characters of XML 1.0 at all: no document that contains   *)
(* them, raw or as a character reference, is well formed, so they cannot   *)
(* reach the document.                                                     *)
(***************************************************************************)
EXTENDS Integers, Sequences, FiniteSets, TLC

RECURSIVE XmlRun(_, _, _, _)
\* returns [ok, why, leaves, nroot]
XmlRun(toks, i, stack, acc) ==
  IF i > Len(toks) THEN
     [ok |-> stack = <<>> /\ acc.nroot = 1, why |-> IF stack # <<>> THEN "unclosed_element" ELSE IF acc.nroot # 1 THEN "not_one_root" ELSE "",
      leaves |-> acc.leaves, counts |-> acc.counts]
  ELSE LET tk == toks[i]  kind == tk[1] IN
       IF kind = "B" THEN [ok |-> FALSE, why |-> "bad_construct", leaves |-> acc.leaves, counts |-> acc.counts]
       ELSE IF kind = "K" THEN XmlRun(toks, i + 1, stack, acc)
       ELSE IF kind = "O" THEN
            IF stack = <<>> /\ acc.nroot >= 1 THEN [ok |-> FALSE, why |-> "second_root", leaves |-> acc.leaves, counts |-> acc.counts]
            ELSE XmlRun(toks, i + 1, <<tk[2]>> \o stack,
                        [acc EXCEPT !.nroot = IF stack = <<>> THEN @ + 1 ELSE @,
                                    !.counts = IF tk[2] \in DOMAIN @ THEN [@ EXCEPT ![tk[2]] = @ + 1] ELSE @])
       ELSE IF kind = "C" THEN
            IF stack = <<>> \/ Head(stack) # tk[2] THEN [ok |-> FALSE, why |-> "mismatched_close", leaves |-> acc.leaves, counts |-> acc.counts]
            ELSE XmlRun(toks, i + 1, Tail(stack), acc)
       ELSE \* text
            IF stack = <<>> THEN [ok |-> FALSE, why |-> "text_outside_root", leaves |-> acc.leaves, counts |-> acc.counts]
            ELSE XmlRun(toks, i + 1, stack,
                        IF Len(tk) = 4 /\ Len(stack) <= 3 THEN [acc EXCEPT !.leaves = Append(@, <<stack, tk[3], tk[4]>>)] ELSE acc)

Counted == {"Factor", "Consumo", "Produccion", "EAux", "Salida", "Demanda", "Metadato"}
XmlAccept(toks) == XmlRun(toks, 1, <<>>, [nroot |-> 0, leaves |-> <<>>, counts |-> [n \in Counted |-> 0]])

\* a printed number P (units 10^-d) against a logged value V (units 10^-x): the same f32 rounded twice
Pw(n) == CASE n <= 0 -> 1 [] n = 1 -> 10 [] n = 2 -> 100 [] n = 3 -> 1000 [] n = 4 -> 10000 [] n = 5 -> 100000 [] OTHER -> 1000000
AbsI(a) == IF a < 0 THEN -a ELSE a
PrintedOk(P, d, V, x, slack) ==
  IF x >= d THEN AbsI(P * Pw(x - d) - V) <= (Pw(x - d) \div 2) + 1 + slack
  ELSE AbsI(P - V * Pw(d - x)) <= Pw(d - x) * (1 + slack)

\* atoms of free text and what escape_xml makes of them (text content must not contain raw < or &)
TextAtoms == {"<", ">", "&", "\"", "'", "\\", "<NT>", "<EU>", "a", " ", "#", ":", "]]>", "&amp;", "<C1>", "<VT>", ","}
EscapeAtom(a) == CASE a = "<" -> "&lt;" [] a = ">" -> "&gt;" [] a = "&" -> "&amp;" [] a = "\"" -> "&quot;"
                   [] a = "\\" -> "&apos;" [] a = "]]>" -> "]]&gt;" [] a = "&amp;" -> "&amp;amp;"
                   [] a \in {"<C1>", "<VT>"} -> "" [] OTHER -> a
RawDangerous == {"<", "&", "]]>", "&amp;", "<C1>", "<VT>"}
=============================================================================
