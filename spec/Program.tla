------------------------------ MODULE Program ------------------------------
(***************************************************************************)
(* The command line program (src/bin/cteepbd.rs, fn main) as a sequential  *)
(* state machine: one action per stage of main(), in the order of the      *)
(* code, each stage either going on or ending the process with a           *)
(* deliberate exit code after reporting on stderr.                         *)
(*                                                                         *)
(*   Args      option parser (clap): an unknown location, or none of       *)
(*             -c / -f / -l (even with -L) -> exit 1                       *)
(*   License   -L prints the licence and ends with 0                       *)
(*   Comps     -c FILE read (unreadable -> 74) and parsed (not a           *)
(*             components file -> 65); without -c the default (empty)      *)
(*             components                                                  *)
(*   Factors   -f FILE (unreadable -> 74, unusable -> 65) or -l LOC or the *)
(*             CTE_LOCALIZACION metadata; none of them -> 64               *)
(*   SaveC     --oc written (cannot be created -> 73)                      *)
(*   SaveF     --of written (73)                                           *)
(*   Eval      only if there are components: error -> 65                   *)
(*   Json, Xml --json / --xml written (73); then the plain report is       *)
(*   Txt       printed and --txt written (73)                              *)
(*   Done      exit 0                                                      *)
(*                                                                         *)
(* A configuration fixes the condition of every input and output; the      *)
(* state records the stage, the files written so far, the output paths     *)
(* that still hold the document of an earlier run (`stale`: a path can     *)
(* exist before the run - writing REPLACES what it held), whether the      *)
(* report was printed, the exit code (-1 while running) and whether an     *)
(* error was reported.  Area / k_exp / RED1 / RED2 resolution is           *)
(* spec/Cli.tla.                                                           *)
(***************************************************************************)
EXTENDS ProgramDefs

VARIABLES cfg, pc, written, stale, printed, exit, reported
vars == <<cfg, pc, written, stale, printed, exit, reported>>

Running == exit = -1

End(code) == /\ exit' = code /\ reported' = (code # 0) /\ pc' = "ended"
             /\ UNCHANGED <<cfg, written, stale, printed>>
Goto(stage) == pc' = stage /\ UNCHANGED <<cfg, written, stale, printed, exit, reported>>

Args == pc = "args" /\ IF ParserRefuses(cfg) THEN End(1) ELSE Goto("license")
License == pc = "license" /\ IF cfg.license THEN End(0) ELSE Goto("comps")
Comps ==
  /\ pc = "comps"
  /\ IF cfg.comps \in {"missing", "dir"} THEN End(74)
     ELSE IF cfg.comps = "garbage" THEN End(65)
     ELSE Goto("factors")
Factors ==
  /\ pc = "factors"
  /\ IF cfg.fsrc = "none" THEN End(64)
     ELSE IF cfg.fsrc = "filemissing" THEN End(74)
     ELSE IF cfg.fsrc = "filebad" THEN End(65)
     ELSE Goto("oc")
Save(o, next) ==
  /\ pc = o
  /\ IF cfg.out[o] = "nodir" THEN End(73)
     ELSE /\ written' = (IF cfg.out[o] \in Writable THEN written \cup {o} ELSE written)
          \* the file is created anew: nothing of what the path held before is left
          /\ stale' = (IF cfg.out[o] \in Writable THEN stale \ {o} ELSE stale)
          /\ pc' = next /\ UNCHANGED <<cfg, printed, exit, reported>>
Eval ==
  /\ pc = "eval"
  /\ IF ~HasComponents(cfg) THEN End(0)                       \* nothing to evaluate: no report, no result files
     ELSE IF cfg.comps = "needsfactor" /\ cfg.fsrc = "fileincomplete" THEN End(65)
     ELSE Goto("json")
\* the plain report goes to stdout between --xml and --txt
Print == pc = "print" /\ printed' = TRUE /\ pc' = "txt" /\ UNCHANGED <<cfg, written, stale, exit, reported>>
Done == pc = "done" /\ End(0)

Init == cfg \in Configs /\ pc = "args" /\ written = {} /\ stale = StaleAtStart(cfg) /\ printed = FALSE /\ exit = -1 /\ reported = FALSE
Next == Args \/ License \/ Comps \/ Factors \/ Save("oc", "of") \/ Save("of", "eval") \/ Eval
        \/ Save("json", "xml") \/ Save("xml", "print") \/ Print \/ Save("txt", "done") \/ Done
Spec == Init /\ [][Next]_vars

(***************************************************************************)
(* What the properties say about the program, as invariants of the machine *)
(***************************************************************************)
DeliberateCodes == {0, 1, 64, 65, 73, 74}
\* C16: whenever it ends it is with a deliberate code, and an error code comes with a report on stderr
TerminalOk == ~Running => exit \in DeliberateCodes /\ (exit # 0 => reported)
\* C19 (last clause): a run that is refused for its data (65) or its usage (64, 1) leaves no result
NoResultWhenRefused == exit \in {1, 64, 65} => written \cap {"json", "xml", "txt"} = {} /\ ~printed
\* a result file is only written after a successful evaluation, and the report is printed before --txt
ResultsAfterEval == (written \cap {"json", "xml", "txt"} # {} => HasComponents(cfg)) /\ ("txt" \in written => printed)
\* C17: what a run leaves in an output file is the document of THAT run - a written file holds nothing of an
\* earlier run, and a path the run did not write is as it was
FreshWhenWritten == written \cap stale = {} /\ stale = StaleAtStart(cfg) \ written
\* the machine always terminates: no stage is left without a successor
Progress == Running => ENABLED Next

=============================================================================
