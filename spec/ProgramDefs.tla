---------------------------- MODULE ProgramDefs ----------------------------
(***************************************************************************)
(* Constant-level part of spec/Program.tla: the configuration space of the *)
(* command line program and Outcome(cfg), the terminal state its           *)
(* (deterministic) state machine reaches - the functional form the trace   *)
(* specification evaluates; MC_Program!Agrees checks that it is the state  *)
(* the actions of Program.tla reach.                                       *)
(***************************************************************************)
EXTENDS Integers, Sequences, FiniteSets

CompsStates == {"none", "valid", "missing", "dir", "empty", "metaonly", "remarks", "garbage", "needsfactor"}
FsrcStates == {"none", "loc", "badloc", "file", "filemissing", "filebad", "fileincomplete"}
\* an output: not asked for | a path that can be written and does not exist yet | a path in a directory that does
\* not exist | a path that can be written and already holds a (longer) document of an earlier run
OutStates == {"absent", "ok", "nodir", "over"}
Outputs == {"oc", "of", "json", "xml", "txt"}
Writable == {"ok", "over"}
StaleAtStart(c) == {o \in Outputs : c.out[o] = "over"}
Configs == [comps : CompsStates, fsrc : FsrcStates, out : [Outputs -> OutStates], license : BOOLEAN, lm : BOOLEAN, v : 0..3]

HasComponents(c) == c.comps \in {"valid", "needsfactor"}
\* the option parser wants a known location and at least one of -c, -f, -l
ParserRefuses(c) == c.fsrc = "badloc" \/ (c.comps = "none" /\ c.fsrc = "none")

\* the outcome of a configuration (the machine is deterministic): used by the trace specification
RECURSIVE RunFrom(_)
RunFrom(s) ==
  IF s.exit # -1 THEN s
  ELSE LET c == s.cfg
           end(code) == [s EXCEPT !.exit = code, !.reported = (code # 0), !.pc = "ended"]
           goto(st) == [s EXCEPT !.pc = st]
           save(o, next) == IF c.out[o] = "nodir" THEN end(73)
                            ELSE [s EXCEPT !.pc = next, !.written = IF c.out[o] \in Writable THEN @ \cup {o} ELSE @,
                                           !.stale = IF c.out[o] \in Writable THEN @ \ {o} ELSE @]
       IN RunFrom(
            CASE s.pc = "args" -> IF ParserRefuses(c) THEN end(1) ELSE goto("license")
              [] s.pc = "license" -> IF c.license THEN end(0) ELSE goto("comps")
              [] s.pc = "comps" -> IF c.comps \in {"missing", "dir"} THEN end(74) ELSE IF c.comps = "garbage" THEN end(65) ELSE goto("factors")
              [] s.pc = "factors" -> IF c.fsrc = "none" THEN end(64) ELSE IF c.fsrc = "filemissing" THEN end(74)
                                     ELSE IF c.fsrc = "filebad" THEN end(65) ELSE goto("oc")
              [] s.pc = "oc" -> save("oc", "of")
              [] s.pc = "of" -> save("of", "eval")
              [] s.pc = "eval" -> IF ~HasComponents(c) THEN end(0)
                                  ELSE IF c.comps = "needsfactor" /\ c.fsrc = "fileincomplete" THEN end(65) ELSE goto("json")
              [] s.pc = "json" -> save("json", "xml")
              [] s.pc = "xml" -> save("xml", "print")
              [] s.pc = "print" -> [s EXCEPT !.printed = TRUE, !.pc = "txt"]
              [] s.pc = "txt" -> save("txt", "done")
              [] OTHER -> end(0))
Outcome(c) == RunFrom([cfg |-> c, pc |-> "args", written |-> {}, stale |-> StaleAtStart(c), printed |-> FALSE, exit |-> -1, reported |-> FALSE])
=============================================================================
