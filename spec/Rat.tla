-------------------------------- MODULE Rat --------------------------------
(***************************************************************************)
(* Exact rational arithmetic for the cteepbd specification.               *)
(*                                                                         *)
(* TLA+ has no floating point and TLC integers are 32-bit (TLC aborts on   *)
(* overflow), so every quantity of the specification is a gcd-normalised   *)
(* pair <<n, d>> with d > 0.  Addition goes through the lcm of the         *)
(* denominators and multiplication cross-cancels first, which keeps the    *)
(* intermediate products small on the lattices used by the model configs.  *)
(*                                                                         *)
(* The implementation computes in f32; its values reach TLC as integers    *)
(* scaled by 10^p (see DESIGN.md section 3).  Scaled(r, p) converts an     *)
(* exact rational to that unit by long division and Close is the single    *)
(* tolerance rule used by every trace specification.                       *)
(***************************************************************************)
EXTENDS Integers, Sequences, FiniteSets

RECURSIVE Gcd(_, _)
Gcd(a, b) == IF b = 0 THEN a ELSE Gcd(b, a % b)
Abs(x) == IF x < 0 THEN -x ELSE x
IMax(a, b) == IF a >= b THEN a ELSE b
IMin(a, b) == IF a <= b THEN a ELSE b

Norm(n, d) ==
  IF n = 0 THEN <<0, 1>>
  ELSE LET g == Gcd(Abs(n), Abs(d))
           s == IF d < 0 THEN -1 ELSE 1
       IN <<s * (n \div g), s * (d \div g)>>

R(n) == <<n, 1>>
Zero == <<0, 1>>
One == <<1, 1>>
Lcm(a, b) == (a \div Gcd(a, b)) * b

RAdd(a, b) ==
  IF a[1] = 0 THEN b
  ELSE IF b[1] = 0 THEN a
  ELSE IF a[2] = b[2] THEN Norm(a[1] + b[1], a[2])
  ELSE LET l == Lcm(a[2], b[2])
       IN Norm(a[1] * (l \div a[2]) + b[1] * (l \div b[2]), l)
RNeg(a) == <<-a[1], a[2]>>
RSub(a, b) == RAdd(a, RNeg(b))
RMul(a, b) ==
  IF a[1] = 0 \/ b[1] = 0 THEN Zero
  ELSE LET g1 == Gcd(Abs(a[1]), b[2])
           g2 == Gcd(Abs(b[1]), a[2])
       IN <<(a[1] \div g1) * (b[1] \div g2), (a[2] \div g2) * (b[2] \div g1)>>
RInv(b) == IF b[1] < 0 THEN <<-b[2], -b[1]>> ELSE <<b[2], b[1]>>
RDiv(a, b) == RMul(a, RInv(b))
\* Comparison without any product (products of large numerators and denominators leave
\* 32 bits): integer parts first, then the fractional parts by their continued fractions.
RECURSIVE CmpFrac(_, _, _, _)
\* sign of a/b - c/d for 0 <= a < b, 0 <= c < d
CmpFrac(a, b, c, d) ==
  IF a = 0 /\ c = 0 THEN 0
  ELSE IF a = 0 THEN -1
  ELSE IF c = 0 THEN 1
  ELSE LET q1 == b \div a  q2 == d \div c IN
       IF q1 > q2 THEN -1 ELSE IF q1 < q2 THEN 1
       ELSE -CmpFrac(b % a, a, d % c, c)
FloorDiv(n, d) == IF n >= 0 THEN n \div d ELSE -((-n + d - 1) \div d)
RCmp(a, b) ==
  LET fa == FloorDiv(a[1], a[2])  fb == FloorDiv(b[1], b[2]) IN
  IF fa < fb THEN -1 ELSE IF fa > fb THEN 1
  ELSE CmpFrac(a[1] - fa * a[2], a[2], b[1] - fb * b[2], b[2])
RLeq(a, b) == RCmp(a, b) <= 0
RLt(a, b) == ~RLeq(b, a)
RMin(a, b) == IF RLeq(a, b) THEN a ELSE b
RMax(a, b) == IF RLeq(a, b) THEN b ELSE a
RAbs(a) == <<Abs(a[1]), a[2]>>
RIsZero(a) == a[1] = 0
RPos(a) == a[1] > 0
RNonNeg(a) == a[1] >= 0

RECURSIVE SumSeq(_)
SumSeq(s) == IF s = <<>> THEN Zero ELSE RAdd(Head(s), SumSeq(Tail(s)))

RECURSIVE SumSet(_, _)
SumSet(f(_), S) ==
  IF S = {} THEN Zero
  ELSE LET x == CHOOSE x \in S : TRUE IN RAdd(f(x), SumSet(f, S \ {x}))

RECURSIVE ISumSet(_, _)
ISumSet(f(_), S) ==
  IF S = {} THEN 0
  ELSE LET x == CHOOSE x \in S : TRUE IN f(x) + ISumSet(f, S \ {x})

RECURSIVE ISumSeq(_)
ISumSeq(s) == IF s = <<>> THEN 0 ELSE Head(s) + ISumSeq(Tail(s))

(***************************************************************************)
(* Triples (renewable, non renewable, CO2), the RenNrenCo2 of the code.    *)
(***************************************************************************)
TZero == <<Zero, Zero, Zero>>
TAdd(x, y) == <<RAdd(x[1], y[1]), RAdd(x[2], y[2]), RAdd(x[3], y[3])>>
TSub(x, y) == <<RSub(x[1], y[1]), RSub(x[2], y[2]), RSub(x[3], y[3])>>
TScale(x, k) == <<RMul(x[1], k), RMul(x[2], k), RMul(x[3], k)>>
TIsZero(x) == RIsZero(x[1]) /\ RIsZero(x[2]) /\ RIsZero(x[3])
RECURSIVE TSumSet(_, _)
TSumSet(f(_), S) ==
  IF S = {} THEN TZero
  ELSE LET x == CHOOSE x \in S : TRUE IN TAdd(f(x), TSumSet(f, S \ {x}))

(***************************************************************************)
(* Conversion to the implementation's logging unit: round(r * 10^p),       *)
(* digit by digit so that n * 10^p is never formed.  Safe while            *)
(* d < 2 * 10^8 and the result fits in 31 bits; p >= 0.                    *)
(***************************************************************************)
RECURSIVE LD(_, _, _, _)
LD(q, r, d, p) ==
  IF p = 0 THEN (IF 2 * r >= d THEN q + 1 ELSE q)
  ELSE LD(10 * q + ((10 * r) \div d), (10 * r) % d, d, p - 1)

\* a denominator too large for the long division is first shrunk (relative error < 1e-7)
Shrink(r) ==
  IF r[2] < 100000000 THEN r
  ELSE LET f == (r[2] \div 100000000) + 1 IN <<r[1] \div f, r[2] \div f>>
Scaled(r0, p) ==
  LET r == Shrink(<<Abs(r0[1]), r0[2]>>)
      n == r[1]
      d == r[2]
      v == LD(n \div d, n % d, d, p)
  IN IF r0[1] < 0 THEN -v ELSE v
TScaled(x, p) == <<Scaled(x[1], p), Scaled(x[2], p), Scaled(x[3], p)>>

Pow10(p) == CASE p = 0 -> 1 [] p = 1 -> 10 [] p = 2 -> 100 [] p = 3 -> 1000
              [] p = 4 -> 10000 [] p = 5 -> 100000 [] p = 6 -> 1000000
              [] p = 7 -> 10000000 [] p = 8 -> 100000000 [] OTHER -> 1000000000

(***************************************************************************)
(* The tolerance rule.  mag is the case magnitude S * 10^p expressed in    *)
(* the logging unit (at most 10^6 by construction of p): two values are    *)
(* close when they differ by at most 5e-5 of the magnitude plus two units. *)
(***************************************************************************)
Tol(mag) == (mag \div 20000) + 2
Close(a, b, mag) == Abs(a - b) <= Tol(mag)
TClose(x, y, mag) == Close(x[1], y[1], mag) /\ Close(x[2], y[2], mag) /\ Close(x[3], y[3], mag)
=============================================================================
