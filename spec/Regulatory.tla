----------------------------- MODULE Regulatory -----------------------------
(***************************************************************************)
(* Factor sets used by the model configurations.                           *)
(*  - Prepared(loc): the regulatory set of a location as cteepbd prepares  *)
(*    it (cte.rs CTE_LOCWF_RITE2014 + Factors::normalize with the default  *)
(*    RED1/RED2), in the order the code produces it.                       *)
(*  - User1 / User2: user files in which the factors of step A/B, of the   *)
(*    grid / non-EPB destinations and of the sources are pairwise          *)
(*    different (dyadic values, exact in f32).                             *)
(* Values are thousandths, as printed by the tool.                         *)
(***************************************************************************)
EXTENDS EpbTypes

ElGrid(loc) == CASE loc = "PENINSULA" -> <<414, 1954, 331>>
                 [] loc = "BALEARES" -> <<82, 2968, 932>>
                 [] loc = "CANARIAS" -> <<70, 2924, 776>>
                 [] loc = "CEUTAMELILLA" -> <<72, 2718, 721>>
Locs == {"PENINSULA", "BALEARES", "CANARIAS", "CEUTAMELILLA"}

LocBase(loc) == <<
  Fac("EAMBIENTE", "RED", "SUMINISTRO", "A", <<1000, 0, 0>>),
  Fac("EAMBIENTE", "INSITU", "SUMINISTRO", "A", <<1000, 0, 0>>),
  Fac("TERMOSOLAR", "RED", "SUMINISTRO", "A", <<1000, 0, 0>>),
  Fac("TERMOSOLAR", "INSITU", "SUMINISTRO", "A", <<1000, 0, 0>>),
  Fac("BIOCARBURANTE", "RED", "SUMINISTRO", "A", <<1028, 85, 18>>),
  Fac("BIOMASA", "RED", "SUMINISTRO", "A", <<1003, 34, 18>>),
  Fac("BIOMASADENSIFICADA", "RED", "SUMINISTRO", "A", <<1028, 85, 18>>),
  Fac("CARBON", "RED", "SUMINISTRO", "A", <<2, 1082, 472>>),
  Fac("GASNATURAL", "RED", "SUMINISTRO", "A", <<5, 1190, 252>>),
  Fac("GASOLEO", "RED", "SUMINISTRO", "A", <<3, 1179, 311>>),
  Fac("GLP", "RED", "SUMINISTRO", "A", <<3, 1201, 254>>),
  Fac("ELECTRICIDAD", "INSITU", "SUMINISTRO", "A", <<1000, 0, 0>>),
  Fac("ELECTRICIDAD", "RED", "SUMINISTRO", "A", ElGrid(loc)) >>

DefaultRed == <<0, 1300, 300>>

\* user file 1: no COGEN lines (the derived cogeneration factors are used)
User1 == <<
  Fac("ELECTRICIDAD", "RED", "SUMINISTRO", "A", <<500, 2000, 250>>),
  Fac("ELECTRICIDAD", "INSITU", "SUMINISTRO", "A", <<1000, 0, 0>>),
  Fac("ELECTRICIDAD", "INSITU", "A_RED", "A", <<750, 250, 125>>),
  Fac("ELECTRICIDAD", "INSITU", "A_NEPB", "A", <<875, 125, 375>>),
  Fac("ELECTRICIDAD", "INSITU", "A_RED", "B", <<250, 1750, 500>>),
  Fac("ELECTRICIDAD", "INSITU", "A_NEPB", "B", <<375, 1500, 625>>),
  Fac("EAMBIENTE", "RED", "SUMINISTRO", "A", <<1000, 0, 0>>),
  Fac("EAMBIENTE", "INSITU", "SUMINISTRO", "A", <<1000, 0, 0>>),
  Fac("EAMBIENTE", "INSITU", "A_RED", "A", <<750, 0, 125>>),
  Fac("EAMBIENTE", "INSITU", "A_NEPB", "A", <<625, 125, 0>>),
  Fac("EAMBIENTE", "INSITU", "A_RED", "B", <<500, 250, 250>>),
  Fac("EAMBIENTE", "INSITU", "A_NEPB", "B", <<375, 500, 375>>),
  Fac("GASNATURAL", "RED", "SUMINISTRO", "A", <<125, 1250, 250>>),
  Fac("BIOMASA", "RED", "SUMINISTRO", "A", <<1000, 125, 0>>),
  Fac("RED1", "RED", "SUMINISTRO", "A", <<250, 1000, 125>>) >>

\* user file 2: as User1 plus user-supplied cogeneration export factors (they win over the derived ones)
User2 == User1 \o <<
  Fac("ELECTRICIDAD", "COGEN", "A_RED", "A", <<125, 2250, 875>>),
  Fac("ELECTRICIDAD", "COGEN", "A_NEPB", "A", <<0, 2500, 750>>),
  Fac("ELECTRICIDAD", "COGEN", "A_RED", "B", <<625, 1125, 125>>),
  Fac("ELECTRICIDAD", "COGEN", "A_NEPB", "B", <<500, 1375, 250>>),
  \* repeated keys (lines a user appended without removing the old ones): the first line of a key is the one that counts,
  \* before and after any preparation or simplification of the set
  Fac("ELECTRICIDAD", "RED", "SUMINISTRO", "A", <<0, 3000, 999>>),
  Fac("ELECTRICIDAD", "INSITU", "A_RED", "B", <<999, 0, 0>>),
  Fac("GASNATURAL", "RED", "SUMINISTRO", "A", <<0, 0, 0>>),
  Fac("BIOMASA", "RED", "SUMINISTRO", "A", <<0, 2000, 500>>) >>
=============================================================================
