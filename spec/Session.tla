------------------------------ MODULE Session ------------------------------
(***************************************************************************)
(* Transforms of an input that a user applies between evaluations (the     *)
(* "Session" level of the specification).  Each is a function on the       *)
(* component list; the relational properties C03, C08, C09, C11, C14 are   *)
(* statements about Evaluate before and after a transform.                 *)
(***************************************************************************)
EXTENDS Factors

MapV(C, f(_)) == [i \in 1..Len(C) |-> [C[i] EXCEPT !.v = f(C[i].v)]]

\* Permute(pi): new[t] = old[pi[t]]
Permute(C, pi) == MapV(C, LAMBDA v : [t \in 1..Len(v) |-> v[pi[t]]])
\* Repeat(m): every step becomes m sub-steps carrying the step's value
\* (Subdivide(m) of the m-fold building: values stay integral)
Repeat(C, m) == MapV(C, LAMBDA v : [k \in 1..(m * Len(v)) |-> v[((k - 1) \div m) + 1]])
\* ScaleInt(c): every energy value times the integer c
ScaleInt(C, c) == MapV(C, LAMBDA v : [t \in 1..Len(v) |-> c * v[t]])
\* AddPv(delta): one more on-site electricity production component
AddPv(C, delta) == Append(C, Prod(0, "EL_INSITU", delta))

Perms(n) == {p \in [1..n -> 1..n] : \A a, b \in 1..n : a # b => p[a] # p[b]}

\* annual projection of an Evaluate result: everything that is not a per-step vector
AnnualOf(r) ==
  [bal |-> r.bal, rer |-> r.rer, rer_nrb |-> r.rer_nrb, rer_onst |-> r.rer_onst,
   cr |-> [c \in r.crs |-> [an |-> r.cr[c].an, we |-> r.cr[c].we]]]
=============================================================================
