----------------------------- MODULE TextFormat -----------------------------
(***************************************************************************)
(* A components file at token level (src/components.rs:97-165 and the      *)
(* FromStr of the component kinds): a sequence of lines, each              *)
(*   [t |-> "comp", c |-> component, omitId |-> BOOLEAN, pad |-> BOOLEAN,   *)
(*    note |-> comment text or ""]                                          *)
(*   [t |-> "blank"] | [t |-> "remark"] | [t |-> "header"]                  *)
(*   [t |-> "meta", c |-> <<key, value>>]                                   *)
(* plus the file flag bom.  Lines that are not components are skipped by   *)
(* the parser; a component line may omit a system id 0 (kinds CONSUMO,     *)
(* PRODUCCION, AUX), may be padded with white space and may end with a     *)
(* comment.                                                                *)
(*                                                                         *)
(* Denote(file) is what the file declares: for every tag tuple (kind, id,  *)
(* carrier, service, source) the per-step sum of the values of its lines.  *)
(* The rewriting actions of C10 preserve it (RenameIds up to the renaming) *)
(* and therefore the evaluation.                                           *)
(***************************************************************************)
EXTENDS EpbTypes, Rat

CompLine(c) == [t |-> "comp", c |-> c, omitId |-> FALSE, pad |-> FALSE, note |-> ""]
Blank == [t |-> "blank", c |-> <<>>, omitId |-> FALSE, pad |-> FALSE, note |-> ""]
Remark == [t |-> "remark", c |-> <<>>, omitId |-> FALSE, pad |-> FALSE, note |-> "a remark"]
Header == [t |-> "header", c |-> <<>>, omitId |-> FALSE, pad |-> FALSE, note |-> ""]
\* a metadata line "#META key: value" (c holds the pair); the parser reads it wherever it is in the file
MetaLine(k, v) == [t |-> "meta", c |-> <<k, v>>, omitId |-> FALSE, pad |-> FALSE, note |-> ""]
FileOf(C) == [bom |-> FALSE, lines |-> [i \in 1..Len(C) |-> CompLine(C[i])]]
WithMeta(f, ms) == [f EXCEPT !.lines = ms \o @]
\* what the file declares as metadata: its key / value pairs
MetaOf(f) == {f.lines[i].c : i \in {i \in 1..Len(f.lines) : f.lines[i].t = "meta"}}

CompsOf(f) == LET idx == {i \in 1..Len(f.lines) : f.lines[i].t = "comp"}
              IN [k \in 1..Cardinality(idx) |->
                    f.lines[CHOOSE i \in idx : Cardinality({j \in idx : j < i}) = k - 1].c]
TagOf(c) == <<c.kind, c.id, c.cr, c.srv, c.src>>
Denote(f) ==
  LET C == CompsOf(f)
      tags == {TagOf(C[i]) : i \in 1..Len(C)}
      N == IF Len(C) = 0 THEN 0 ELSE Len(C[1].v)
  IN [tg \in tags |-> [t \in 1..N |-> ISumSet(LAMBDA i : C[i].v[t], {i \in 1..Len(C) : TagOf(C[i]) = tg})]]

\* ---------------------------------------------------------------- rewriting actions
InsertAt(s, i, x) == SubSeq(s, 1, i - 1) \o <<x>> \o SubSeq(s, i, Len(s))
SwapLines(f, i) == [f EXCEPT !.lines = [f.lines EXCEPT ![i] = f.lines[i + 1], ![i + 1] = f.lines[i]]]
\* split one component line into two lines with the same tags whose values add up
SplitLine(f, i) ==
  LET ln == f.lines[i]
      a == [t \in 1..Len(ln.c.v) |-> ln.c.v[t] \div 2]
      b == [t \in 1..Len(ln.c.v) |-> ln.c.v[t] - (ln.c.v[t] \div 2)]
  IN [f EXCEPT !.lines = SubSeq(f.lines, 1, i - 1) \o <<[ln EXCEPT !.c.v = a], [ln EXCEPT !.c.v = b]>> \o SubSeq(f.lines, i + 1, Len(f.lines))]
\* ... into parts of both signs (a correction line): value + 3 and -3
SplitSigned(f, i) ==
  LET ln == f.lines[i]
      a == [t \in 1..Len(ln.c.v) |-> ln.c.v[t] + 3]
      b == [t \in 1..Len(ln.c.v) |-> -3]
  IN [f EXCEPT !.lines = SubSeq(f.lines, 1, i - 1) \o <<[ln EXCEPT !.c.v = a], [ln EXCEPT !.c.v = b]>> \o SubSeq(f.lines, i + 1, Len(f.lines))]
\* consistent injective renumbering of the system ids (negative ids included)
Renaming(id) == 7 - 3 * id
RenameIds(f) == [f EXCEPT !.lines = [i \in 1..Len(f.lines) |->
                    IF f.lines[i].t = "comp" /\ f.lines[i].c.kind # "NEED"
                    THEN [f.lines[i] EXCEPT !.c.id = Renaming(f.lines[i].c.id)] ELSE f.lines[i]]]
AddNote(f, i) == [f EXCEPT !.lines[i].note = "nota"]
AddBlank(f, i) == [f EXCEPT !.lines = InsertAt(f.lines, i, Blank)]
AddRemark(f, i) == [f EXCEPT !.lines = InsertAt(f.lines, i, Remark)]
AddHeader(f) == [f EXCEPT !.lines = <<Header>> \o f.lines]
AddBom(f) == [f EXCEPT !.bom = TRUE]
PadWhitespace(f, i) == [f EXCEPT !.lines[i].pad = TRUE]
\* writing id 0 explicitly or omitting it (kinds whose grammar has an optional id)
CanOmitId(ln) == ln.t = "comp" /\ ln.c.kind \in {"USED", "PROD", "AUX"} /\ ln.c.id = 0
ToggleId0(f, i) == [f EXCEPT !.lines[i].omitId = ~f.lines[i].omitId]

IsCompLine(f, i) == f.lines[i].t = "comp"
CanPad(f, i) == f.lines[i].t \in {"comp", "meta"}

(***************************************************************************)
(* Print / Parse of one component line as a sequence of fields (Display    *)
(* and FromStr of EUsed, EProd, EAux, EOut, Needs).  Values are integers   *)
(* in hundredths (the printed precision); ids are integers; the other      *)
(* fields are tag strings.  An AUX line carries no service: it is read     *)
(* back with the service NEPB and re-assigned by the normalisation.        *)
(***************************************************************************)
\* a field is <<"i", integer>> or <<"s", tag string>> (TLC cannot compare integers with strings)
FI(n) == <<"i", n>>
FS(x) == <<"s", x>>
FVals(v) == [t \in 1..Len(v) |-> FI(v[t])]
PrintLine(c) ==
  CASE c.kind = "USED" -> <<FI(c.id), FS("CONSUMO"), FS(c.srv), FS(c.cr)>> \o FVals(c.v)
    [] c.kind = "PROD" -> <<FI(c.id), FS("PRODUCCION"), FS(c.src)>> \o FVals(c.v)
    [] c.kind = "AUX" -> <<FI(c.id), FS("AUX")>> \o FVals(c.v)
    [] c.kind = "OUT" -> <<FI(c.id), FS("SALIDA"), FS(c.srv)>> \o FVals(c.v)
    [] OTHER -> <<FS("DEMANDA"), FS(c.srv)>> \o FVals(c.v)
\* fields -> component; the id may be omitted (legacy lines) except for SALIDA; <<>> = not a component line
ParseFields(fs) ==
  IF Len(fs) < 2 THEN <<>>
  ELSE LET hasId == fs[1][1] = "i"
           id == IF hasId THEN fs[1][2] ELSE 0
           b == IF hasId THEN 2 ELSE 1
           tag == IF fs[b][1] = "s" THEN fs[b][2] ELSE "?"
           str(k) == IF Len(fs) >= b + k /\ fs[b + k][1] = "s" THEN fs[b + k][2] ELSE "?"
           vals(k) == LET r == SubSeq(fs, b + k, Len(fs)) IN [t \in 1..Len(r) |-> r[t][2]]
           allInt(k) == \A t \in (b + k)..Len(fs) : fs[t][1] = "i"
       IN CASE tag = "CONSUMO" /\ allInt(3) -> [kind |-> "USED", id |-> id, cr |-> str(2), srv |-> str(1), src |-> "-", v |-> vals(3), cm |-> ""]
            [] tag = "PRODUCCION" /\ allInt(2) -> [kind |-> "PROD", id |-> id, cr |-> "-", srv |-> "-", src |-> str(1), v |-> vals(2), cm |-> ""]
            [] tag = "AUX" /\ allInt(1) -> [kind |-> "AUX", id |-> id, cr |-> "-", srv |-> "NEPB", src |-> "-", v |-> vals(1), cm |-> ""]
            [] tag = "SALIDA" /\ hasId /\ allInt(2) -> [kind |-> "OUT", id |-> id, cr |-> "-", srv |-> str(1), src |-> "-", v |-> vals(2), cm |-> ""]
            [] tag = "DEMANDA" /\ ~hasId /\ allInt(2) -> [kind |-> "NEED", id |-> 0, cr |-> "-", srv |-> str(1), src |-> "-", v |-> vals(2), cm |-> ""]
            [] OTHER -> <<>>
=============================================================================
