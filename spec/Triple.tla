------------------------------- MODULE Triple -------------------------------
(***************************************************************************)
(* The three spellings of a (ren, nren, co2) triple that                   *)
(* RenNrenCo2::from_str reads (src/types/rennrenco2.rs:105-147) - the      *)
(* value of the CTE_RED1 / CTE_RED2 metadata and of the weighting factors  *)
(* of a factors file - at token level.  A text is                          *)
(*     [open, items, close]                                                *)
(* with open / close the brackets around it ("", "(", "{", "({", "( {" and *)
(* their mirror images) and items a sequence of [key, val]: the fields     *)
(* between commas, `key: val` or just `val` (key = "").                    *)
(*                                                                         *)
(*   ParseTriple(t)  =  [ok |-> TRUE, v |-> <<ren, nren, co2>>]            *)
(*                   |  [ok |-> FALSE]               (a typed ParseError)  *)
(*                                                                         *)
(* as the code decides it: round brackets around the text are dropped; a   *)
(* text that then starts with a brace is read item by item - every item    *)
(* `ren: x`, `nren: x`, `co2: x` with a numeric x sets that component, a   *)
(* later one overrides an earlier one, every other item is ignored, and    *)
(* the components never set are 0: this branch never fails; any other      *)
(* text must be exactly three numeric items without keys.                  *)
(* Numbers are atoms with their value in thousandths (Milli); NaN is a     *)
(* number for the float parser.                                            *)
(***************************************************************************)
EXTENDS Integers, Sequences, FiniteSets

Opens == {"", "(", "{", "({", "( {"}
Closes == {"", ")", "}", "})", "} )"}
TripleKeys == {"ren", "nren", "co2"}
Milli(v) == CASE v = "0.5" -> 500 [] v = "2" -> 2000 [] v = "-1.25" -> -1250 [] v = "NaN" -> -999999 [] OTHER -> 0
NumericVals == {"0.5", "2", "-1.25", "NaN"}

\* the text reaches the brace branch when, the round brackets dropped, its first character is a brace
Braced(t) == t.open \in {"{", "({"}

\* value of component k after reading the items in order: the last item `k: numeric` wins, 0 without one
Component(items, k) ==
  LET I == {i \in 1..Len(items) : items[i].key = k /\ items[i].val \in NumericVals} IN
  IF I = {} THEN 0 ELSE Milli(items[CHOOSE i \in I : \A j \in I : j <= i].val)

\* Only the characters at the very ends are dropped.  A brace behind "( " is therefore part of the first item in the
\* plain branch (which is then no number), and in the brace branch a closing "} )" leaves "}" glued to the last item
\* (whose value is then no number: the item is ignored).
Effective(t) == IF t.close = "} )" /\ t.items # <<>> THEN SubSeq(t.items, 1, Len(t.items) - 1) ELSE t.items
ParseTriple(t) ==
  IF Braced(t) THEN LET its == Effective(t) IN
                    [ok |-> TRUE, v |-> <<Component(its, "ren"), Component(its, "nren"), Component(its, "co2")>>]
  ELSE IF t.open \in {"", "("} /\ t.close \in {"", ")"}
          /\ Len(t.items) = 3 /\ \A i \in 1..3 : t.items[i].key = "" /\ t.items[i].val \in NumericVals
       THEN [ok |-> TRUE, v |-> <<Milli(t.items[1].val), Milli(t.items[2].val), Milli(t.items[3].val)>>]
       ELSE [ok |-> FALSE, v |-> <<0, 0, 0>>]

\* what a user factor needs to be usable (C19): numeric, none of them "not a number"
Finite(r) == r.ok /\ \A i \in 1..3 : r.v[i] # -999999
=============================================================================
