------------------------------ MODULE TraceComp ------------------------------
(***************************************************************************)
(* Validation of recorded normalisations (Parse events) against the state  *)
(* machine of spec/Components.tla.  A Parse event carries the declared     *)
(* components, the state of the list before every visited id (hooks        *)
(* CompleteId / AuxId / Sort, i.e. the schedule the run really took), the  *)
(* parsed result and the result of normalising it again.                   *)
(*                                                                         *)
(* Conformance: the specification is stepped through the observed schedule *)
(* and compared with every snapshot (as bags, values at 10^-q with one     *)
(* unit of slack).  Properties: the closed forms of C05 / C06 are          *)
(* evaluated on (declared input, parsed result) directly.                  *)
(***************************************************************************)
EXTENDS Components, Json, IOUtils

Rec == ndJsonDeserialize(IOEnv.TRACE)

\* observed component (integers at 10^-q) vs specification component (rationals)
CloseComp(o, x, q, slack) ==
  /\ o.kind = x.kind /\ o.id = x.id /\ o.cr = x.cr /\ o.srv = x.srv /\ o.src = x.src /\ o.cm = x.cm
  /\ Len(o.v) = Len(x.v)
  /\ \A t \in 1..Len(o.v) : Abs(o.v[t] - Scaled(RAbs(x.v[t]), q) * (IF x.v[t][1] < 0 THEN -1 ELSE 1)) <= slack

RemoveAt(s, j) == SubSeq(s, 1, j - 1) \o SubSeq(s, j + 1, Len(s))
RECURSIVE BagClose(_, _, _, _)
\* greedy matching: every observed component has a close specification component, one to one
BagClose(obs, spec, q, slack) ==
  IF obs = <<>> THEN spec = <<>>
  ELSE LET js == {j \in 1..Len(spec) : CloseComp(Head(obs), spec[j], q, slack)} IN
       js # {} /\ BagClose(Tail(obs), RemoveAt(spec, CHOOSE j \in js : \A k \in js : j <= k), q, slack)

RECURSIVE Unmatched(_, _, _, _)
\* observed components left after removing one close observed component per specification component
Unmatched(obs, spec, q, slack) ==
  IF spec = <<>> THEN obs
  ELSE LET js == {j \in 1..Len(obs) : CloseComp(obs[j], Head(spec), q, slack)} IN
       IF js = {} THEN <<[kind |-> "MISSING", id |-> Head(spec).id, cr |-> Head(spec).cr, srv |-> Head(spec).srv,
                          src |-> Head(spec).src, cm |-> "", v |-> <<>>]>> \o Unmatched(obs, Tail(spec), q, slack)
       ELSE Unmatched(RemoveAt(obs, CHOOSE j \in js : \A k \in js : j <= k), Tail(spec), q, slack)

FromObs(C, q) == [i \in 1..Len(C) |-> [C[i] EXCEPT !.v = [t \in 1..Len(C[i].v) |-> Norm(C[i].v[t], Pow10(q))]]]

(***************************************************************************)
(* Conformance of one Parse event to the state machine, following the      *)
(* observed schedule.  Returns the set of mismatch descriptions.           *)
(***************************************************************************)
RECURSIVE Walk(_, _, _, _, _, _)
\* C: specification state; env/cur: completion loop context; k: next step index
Walk(e, C, env, cur, k, visited) ==
  IF k > Len(e.steps) THEN
     (IF e.out.ok THEN (IF BagClose(e.out.data, C, e.q, 1) THEN {} ELSE {"final_state"})
      ELSE {})
  ELSE LET s == e.steps[k]
           snapOk == BagClose(s.data, C, e.q, 1)
       IN IF ~snapOk THEN {"state_before_step_" \o ToString(k) \o "_" \o s.ev}
          ELSE IF s.ev = "CompleteId" THEN
                 LET env2 == IF cur = s.carrier THEN env ELSE EnvIdx(C, s.carrier) IN
                 (IF <<s.carrier, s.id>> \in visited \/ s.id \notin CompleteIds(C, s.carrier) THEN {"schedule_CompleteId"} ELSE {})
                 \cup Walk(e, CompleteIdOp(C, env2, s.carrier, s.id), env2, s.carrier, k + 1, visited \cup {<<s.carrier, s.id>>})
          ELSE IF s.ev = "AuxId" THEN
                 LET rs == AuxIdOp(C, s.id)
                     r == CHOOSE r \in rs : TRUE
                 IN (IF <<"AUX", s.id>> \in visited \/ s.id \notin AuxIds(C) THEN {"schedule_AuxId"} ELSE {})
                    \cup (IF r.ok THEN Walk(e, r.data, {}, "-", k + 1, visited \cup {<<"AUX", s.id>>})
                          ELSE (IF ~e.out.ok /\ e.out.err = "WrongInput" THEN {} ELSE {"expected_WrongInput"}))
          ELSE \* Sort
                 Walk(e, SortById(C), {}, "-", k + 1, visited)

WellShaped(e) ==
  /\ \A k \in 1..Len(e.steps) : \A i \in 1..Len(e.steps[k].data) : Len(e.steps[k].data[i].v) = e.N
  /\ (e.out.ok => \A i \in 1..Len(e.out.data) : Len(e.out.data[i].v) = e.N)
Conformance(e) == IF WellShaped(e) THEN Walk(e, FromObs(e.input, e.q), {}, "-", 1, {}) ELSE {"ill_shaped_state"}

\* every id of the three loops was visited (checked when the parse succeeded)
ScheduleComplete(e) ==
  LET vis(ev, c) == {e.steps[k].id : k \in {k \in 1..Len(e.steps) : e.steps[k].ev = ev /\ (c = "-" \/ e.steps[k].carrier = c)}}
      In0 == FromObs(e.input, e.q)
  IN e.out.ok =>
       /\ vis("CompleteId", "EAMBIENTE") = CompleteIds(In0, "EAMBIENTE")
       /\ vis("CompleteId", "TERMOSOLAR") = CompleteIds(In0, "TERMOSOLAR")
       /\ vis("AuxId", "-") = AuxIds(In0)

(***************************************************************************)
(* C05 on (declared input, parsed result)                                  *)
(***************************************************************************)
NonAux(C) == SelectSeq(C, LAMBDA x : ~IsAux(x))
SeqOfSet(S) == CHOOSE q \in SetToSeqs(S) : TRUE
\* demand lines: per service, the parsed demand is the step-wise sum of the declared lines (one logged unit of slack
\* per line); a service without declared lines has no demand
DemandsKept(e) ==
  \A sv \in NeedSrv :
    LET want == DeclaredNeed(e.input_needs, sv)
        I == {i \in 1..Len(e.out.needs) : e.out.needs[i].srv = sv}
        nl == Cardinality({i \in 1..Len(e.input_needs) : e.input_needs[i].srv = sv})
    IN IF want = <<>> THEN I = {}
       ELSE /\ Cardinality(I) = 1
            /\ LET got == e.out.needs[CHOOSE i \in I : TRUE].v IN
               Len(got) = Len(want) /\ \A t \in 1..Len(want) : Abs(got[t] - want[t]) <= nl
\* free text (cases of the string family): the comment of a line is the text after its first '#', the value of a
\* metadata line the text after the first ':', both without the white space around them - whatever else they contain
RECURSIVE StripL(_)
Blank == {" ", "<VT>"}        \* white space of the alphabet: the blank and the vertical tab U+000B
StripL(q) == IF q # <<>> /\ Head(q) \in Blank THEN StripL(Tail(q)) ELSE q
RECURSIVE StripR(_)
StripR(q) == IF q # <<>> /\ q[Len(q)] \in Blank THEN StripR(SubSeq(q, 1, Len(q) - 1)) ELSE q
DeclaredText(atoms) == StripR(StripL(atoms))
TextKept(e) ==
  /\ \A i \in 1..Len(e.out.cm_atoms) : e.out.cm_atoms[i] = DeclaredText(e.atoms)
  /\ \A i \in 1..Len(e.out.meta_atoms) : e.out.meta_atoms[i][2] = DeclaredText(e.atoms)

NullCompletion(x) == x.cm = "@completion" /\ \A t \in 1..Len(x.v) : x.v[t] = 0
C05Clauses(e) ==
  LET In0 == FromObs(e.input, e.q)
      declared == NonAux(In0)
      obs == NonAux(e.out.data)
      rest == Unmatched(obs, declared, e.q, 0)          \* what remains after removing the declared lines
      lost == SelectSeq(rest, LAMBDA x : x.kind = "MISSING")
      added == SelectSeq(rest, LAMBDA x : x.kind # "MISSING")
      compl == SeqOfSet(Completion(In0, "EAMBIENTE")) \o SeqOfSet(Completion(In0, "TERMOSOLAR"))
  IN (IF lost = <<>> THEN {} ELSE {"declared_line_lost_or_altered"})
     \cup (IF BagClose(added, compl, e.q, 1) THEN {} ELSE {"completion_not_max0_use_minus_declared"})
     \* (up to rounding: a further generated production whose every value rounds to zero at the logging unit - the f32
     \* residue use - (declared + completion), some 1e-9 kWh - is nothing)
     \cup (IF e.out.renorm.ok /\ BagClose(SelectSeq(e.out.renorm.data, LAMBDA x : ~NullCompletion(x)),
                                          FromObs(SelectSeq(e.out.data, LAMBDA x : ~NullCompletion(x)), e.q), e.q, 1)
           THEN {} ELSE {"normalize_not_idempotent"})
     \cup (IF \A i \in 1..(Len(e.out.data) - 1) : e.out.data[i].id <= e.out.data[i + 1].id THEN {} ELSE {"not_sorted_by_id"})
     \cup (IF "input_needs" \in DOMAIN e /\ ~DemandsKept(e) THEN {"declared_demand_lost_or_altered"} ELSE {})
     \cup (IF "cm_atoms" \in DOMAIN e.out /\ ~TextKept(e) THEN {"declared_comment_or_metadata_altered"} ELSE {})

(***************************************************************************)
(* C06 on (declared input, parsed result), per system with auxiliaries     *)
(***************************************************************************)
ISumAtO(C, S, t) == ISumSet(LAMBDA i : C[i].v[t], S)
C06IdClauses(e, id) ==
  LET before == e.input  after == e.out.data  N == e.N
      auxB == {i \in 1..Len(before) : IsAux(before[i]) /\ before[i].id = id}
      auxA == {i \in 1..Len(after) : IsAux(after[i]) /\ after[i].id = id}
      ss == SrvOfUses(before, id)
      epbss == ss \cap EpbSrv
      outs == OutSrvs(before, id)
      qabs(s, t) == Abs(ISumAtO(before, {i \in 1..Len(before) : IsOut(before[i]) /\ before[i].id = id /\ before[i].srv = s}, t))
      qtot(t) == ISumSet(LAMBDA s : qabs(s, t), outs)
      afterOf(s, t) == ISumAtO(after, {i \in auxA : after[i].srv = s}, t)
      auxTot(t) == ISumAtO(before, auxB, t)
      n == Cardinality(auxA) + Cardinality(auxB) + 1
      ok(c, name) == IF c THEN {} ELSE {name}
      \* the logged integers are bounded so that the cross products stay inside 32 bits
      small == \A t \in 1..N : auxTot(t) < 40000 /\ qtot(t) < 40000
  IN ok(\A t \in 1..N : Abs(ISumAtO(after, auxA, t) - auxTot(t)) <= n, "aux_energy_not_conserved")
     \cup ok(\A i \in auxA : \A t \in 1..N : after[i].v[t] >= -1, "negative_aux_share")
     \cup ok(~(Cardinality(ss) = 1 /\ epbss = ss) \/ \A i \in auxA : after[i].srv \in ss, "single_service_not_assigned")
     \cup ok(~(Cardinality(epbss) > 1 /\ epbss = ss /\ small) \/
             \A t \in 1..N : qtot(t) > 0 =>
                \A s \in outs : Abs(afterOf(s, t) * qtot(t) - auxTot(t) * qabs(s, t)) <= n * qtot(t), "share_not_proportional_to_output")
     \cup ok(~(epbss = ss /\ ss # {}) \/ \A i \in auxA : after[i].srv \in EpbSrv, "aux_not_epb_use")

ClearCut(e) ==
  \* every system with auxiliaries has only EPB services and, if several, some output energy
  \A id \in AuxIds(e.input) :
     LET ss == SrvOfUses(e.input, id) IN
     /\ ss # {} /\ ss \subseteq EpbSrv
     /\ (Cardinality(ss) > 1 => \E i \in 1..Len(e.input) : IsOut(e.input[i]) /\ e.input[i].id = id /\ \E t \in 1..e.N : e.input[i].v[t] # 0)
=============================================================================
