------------------------------ MODULE TraceKit ------------------------------
(***************************************************************************)
(* Common part of every trace specification: the recorded trace (ndjson,   *)
(* one event per specification action, written by the conformance harness  *)
(* from the real library), accessors for the logged fields and the         *)
(* comparison of a recorded result with the specification's result.        *)
(*                                                                         *)
(* Trace specifications do not stop at the first failed predicate: the     *)
(* failing clauses of an event are printed as a VERDICT line and counted,  *)
(* so one run reports every violation and the driver can match each one    *)
(* against the known-findings file.  Acceptance of the whole trace is the  *)
(* POSTCONDITION that all events were consumed.                            *)
(***************************************************************************)
EXTENDS Flat, Json, IOUtils

Rec == ndJsonDeserialize(IOEnv.TRACE)

Has_(r, f) == f \in DOMAIN r
RatOf(x) == Norm(x[1], x[2])

\* logged inputs of an Eval event
CompsOf(e) == e.comps
FacOf(e) == e.fac
KOf(e) == RatOf(e.kexp)
AOf(e) == RatOf(e.area)

\* recomputation in exact arithmetic is possible when the logged inputs are exact integers
Lattice(e) == Has_(e, "exact") /\ e.exact /\ e.q = 0

Obs(e) == e.out.flat
OK(e) == e.out.ok
At(e, path) == e.out.flat[path]
HasP(e, path) == path \in DOMAIN e.out.flat

SpecOutcome(e) == Outcome(CompsOf(e), FacOf(e), KOf(e), AOf(e), e.lm, e.N)
SpecResult(e) == Evaluate(CompsOf(e), FacOf(e), KOf(e), AOf(e), e.lm, e.N)

(***************************************************************************)
(* Every field of the recorded result against the exact result.            *)
(* Returns the set of offending paths (empty = conforms).                  *)
(***************************************************************************)
RatioTol(totScaled, mag) == 2 + ((2 * Tol(mag) * 10000) \div totScaled) * 100
RatioOk(obs, exact, totScaled, mag) ==
  totScaled <= 4 * Tol(mag) \/ Abs(obs - Scaled(exact, 6)) <= RatioTol(totScaled, mag)

DiffResult(e, r) ==
  LET obs == Obs(e)
      pa == UNION {FlatCr(c, r.cr[c], e.p) : c \in r.crs} \cup FlatBal("bal", r.bal, One, e.p)
      pm == FlatBal("m2", r.bal, RInv(r.area), e.pm)
      bad(ps, mag) == {pr[1] : pr \in {pr \in ps : pr[1] \notin DOMAIN obs \/ ~Close(obs[pr[1]], pr[2], mag)}}
      known == {pr[1] : pr \in pa} \cup {pr[1] : pr \in pm} \cup {"rer", "rer_nrb", "rer_onst", "k_exp", "arearef"}
      totS == Scaled(r.tot, e.p)
  IN bad(pa, e.mag) \cup bad(pm, e.magm)
     \cup {D("extra", x) : x \in (DOMAIN obs \ known)}
     \cup (IF RatioOk(obs["rer"], r.rer, Abs(totS), e.mag) THEN {} ELSE {"rer"})
     \cup (IF Close(obs["k_exp"], Scaled(r.k, 6), 1000000) THEN {} ELSE {"k_exp"})
     \cup (IF Close(obs["arearef"], Scaled(r.area, 3), Scaled(r.area, 3)) THEN {} ELSE {"arearef"})

\* rer_nrb / rer_onst have no equation in the standard: specified as implemented, DRIFT only
DriftPerimeters(e, r) ==
  LET obs == Obs(e)  totS == Scaled(r.tot, e.p) IN
  (IF RatioOk(obs["rer_nrb"], r.rer_nrb, Abs(totS), e.mag) THEN {} ELSE {"rer_nrb"})
  \cup (IF RatioOk(obs["rer_onst"], r.rer_onst, Abs(totS), e.mag) THEN {} ELSE {"rer_onst"})
=============================================================================
