------------------------------ MODULE TraceKit ------------------------------
(***************************************************************************)
(* Common part of every trace specification: the recorded trace (ndjson,   *)
(* one event per specification action, written by the conformance harness  *)
(* from the real library), accessors for the logged fields and the         *)
(* comparison of a recorded result with the specification's result.        *)
(*                                                                         *)
(* Trace specifications do not stop at the first failed predicate: the     *)
(* failing clauses of an event are printed as a VERDICT line and counted,  *)
(* so one run reports every violation and the driver can match each one    *)
(* against the known-findings file.  Acceptance of the whole trace is the  *)
(* POSTCONDITION that all events were consumed.                            *)
(***************************************************************************)
EXTENDS Flat, Json, IOUtils

Rec == ndJsonDeserialize(IOEnv.TRACE)

Has_(r, f) == f \in DOMAIN r
RatOf(x) == Norm(x[1], x[2])

\* logged inputs of an Eval event
EvComps(e) == e.comps
FacOf(e) == e.fac
KOf(e) == RatOf(e.kexp)
AOf(e) == RatOf(e.area)

\* recomputation in exact arithmetic is possible when the logged inputs are exact integers
Lattice(e) == Has_(e, "exact") /\ e.exact /\ e.q = 0

Obs(e) == e.out.flat
OK(e) == e.out.ok
At(e, path) == e.out.flat[path]
HasP(e, path) == path \in DOMAIN e.out.flat

\* structure of a recorded result
SeqSet(q) == {q[i] : i \in DOMAIN q}
Crs(e) == SeqSet(e.out.crs)
SrvsOf(e, c) == SeqSet(e.out.srvs[c])
SrcsOf(e, c) == SeqSet(e.out.srcs[c])
StepsOf(e) == 1..e.N
V(e, path) == e.out.flat[path]
P2(a, b) == a \o "." \o b
P3(a, b, c) == a \o "." \o b \o "." \o c
P4(a, b, c, d) == a \o "." \o b \o "." \o c \o "." \o d
Cr(c, x) == "cr." \o c \o "." \o x
T(path, t) == path \o "." \o ToString(t)
TolE(e) == Tol(e.mag)
Eq(e, a, b) == Abs(a - b) <= TolE(e)
EqN(e, a, b, n) == Abs(a - b) <= n * TolE(e)
Ge0(e, a) == a >= -TolE(e)
Le(e, a, b) == a <= b + TolE(e)
SumSteps(e, path) == ISumSet(LAMBDA t : V(e, T(path, t)), StepsOf(e))

\* ratios (RER...) are compared with a tolerance that grows as their denominator (the total
\* weighted energy) shrinks towards the rounding noise; below 4 tolerances they are noise
TotS(e) == Abs(V(e, "bal.we.b.ren") + V(e, "bal.we.b.nren"))
RatioEq(e, a, b) ==
  LET t == TotS(e) IN t <= 4 * TolE(e) \/ Abs(a - b) <= 2 + ((2 * TolE(e) * 10000) \div t) * 100
Ratios == {"rer", "rer_nrb", "rer_onst"}

\* a * b / 10^6 without leaving 32 bits (|a| <= 2*10^6, |b| <= 10^6... )
MulMillionth(a, b) ==
  LET s == IF (a < 0) # (b < 0) THEN -1 ELSE 1
      x == Abs(a)  y == Abs(b)
      x1 == x \div 1000  x0 == x % 1000
  IN s * (((x1 * y) \div 1000) + ((x0 * y) \div 1000000))

\* a logged component value (unit 10^-q) in the unit of the results (10^-p)
InUnit(e, v) == IF e.p >= e.q THEN v * Pow10(e.p - e.q)
                ELSE (v + (Pow10(e.q - e.p) \div 2)) \div Pow10(e.q - e.p)
CompSum(e, P(_), t) == ISumSet(LAMBDA i : InUnit(e, e.comps[i].v[t]), {i \in 1..Len(e.comps) : P(e.comps[i])})

SpecOutcome(e) == Outcome(EvComps(e), FacOf(e), KOf(e), AOf(e), e.lm, e.N)
SpecResult(e) == Evaluate(EvComps(e), FacOf(e), KOf(e), AOf(e), e.lm, e.N)

(***************************************************************************)
(* Every field of the recorded result against the exact result.            *)
(* Returns the set of offending paths (empty = conforms).                  *)
(***************************************************************************)
RatioTol(totScaled, mag) == 2 + ((2 * Tol(mag) * 10000) \div totScaled) * 100
RatioOk(obs, exact, totScaled, mag) ==
  totScaled <= 4 * Tol(mag) \/ Abs(obs - Scaled(exact, 6)) <= RatioTol(totScaled, mag)

DiffResult(e, r) ==
  LET obs == Obs(e)
      pa == UNION {FlatCr(c, r.cr[c], e.p) : c \in r.crs} \cup FlatBal("bal", r.bal, One, e.p)
      pm == FlatBal("m2", r.bal, RInv(r.area), e.pm)
      bad(ps, mag) == {pr[1] : pr \in {pr \in ps : pr[1] \notin DOMAIN obs \/ ~Close(obs[pr[1]], pr[2], mag)}}
      known == {pr[1] : pr \in pa} \cup {pr[1] : pr \in pm} \cup {"rer", "rer_nrb", "rer_onst", "k_exp", "arearef"}
      totS == Scaled(r.tot, e.p)
  IN bad(pa, e.mag) \cup bad(pm, e.magm)
     \cup {D("extra", x) : x \in (DOMAIN obs \ known)}
     \cup (IF RatioOk(obs["rer"], r.rer, Abs(totS), e.mag) THEN {} ELSE {"rer"})
     \cup (IF Close(obs["k_exp"], Scaled(r.k, 6), 1000000) THEN {} ELSE {"k_exp"})
     \cup (IF Close(obs["arearef"], Scaled(r.area, 3), Scaled(r.area, 3)) THEN {} ELSE {"arearef"})

\* rer_nrb / rer_onst have no equation in the standard: specified as implemented, DRIFT only
DriftPerimeters(e, r) ==
  LET obs == Obs(e)  totS == Scaled(r.tot, e.p) IN
  (IF RatioOk(obs["rer_nrb"], r.rer_nrb, Abs(totS), e.mag) THEN {} ELSE {"rer_nrb"})
  \cup (IF RatioOk(obs["rer_onst"], r.rer_onst, Abs(totS), e.mag) THEN {} ELSE {"rer_onst"})
=============================================================================
