------------------------------ MODULE TraceProg ------------------------------
(***************************************************************************)
(* Executions of the real program against the state machine of             *)
(* spec/Program.tla.  A Prog event is one process: the configuration the   *)
(* driver realised (files present / missing / unwritable, flags), the way  *)
(* the process ended, whether stderr was empty, which output files exist   *)
(* afterwards (`written`: files that exist and are not what the path held  *)
(* before the run; `stale`: files in which the mark of the earlier         *)
(* document is still found) and whether the plain report was printed.      *)
(*   Terminal(e)   C16: deliberate exit code, error reported on stderr     *)
(*   Refused(e)    C19: a run refused with 1 / 64 / 65 leaves no result    *)
(*   Fresh(e)      C17: a file the run wrote holds nothing of the document *)
(*                 the path held before                                    *)
(*   Conforms(e)   DRIFT: exit code, files written, files left as they     *)
(*                 were and report as Program!Outcome(cfg) says            *)
(***************************************************************************)
EXTENDS ProgramDefs, Json, IOUtils, TLC
Rec == ndJsonDeserialize(IOEnv.TRACE)

ExitNames == {"0", "1", "64", "65", "73", "74"}
SeqSet(q) == {q[i] : i \in DOMAIN q}
CfgOf(e) == [comps |-> e.cfg.comps, fsrc |-> e.cfg.fsrc, out |-> [o \in Outputs |-> e.cfg.out[o]],
             license |-> e.cfg.license, lm |-> e.cfg.lm, v |-> e.cfg.v]

Terminal(e) ==
  (IF e.how \notin ExitNames THEN {"program_ends_by_" \o e.how} ELSE {})
  \cup (IF e.how \in ExitNames /\ e.how # "0" /\ e.stderr_empty THEN {"error_not_reported_on_stderr"} ELSE {})
Refused(e) ==
  IF e.how \in {"1", "64", "65"} /\ (SeqSet(e.written) \cap {"json", "xml", "txt"} # {} \/ e.printed)
  THEN {"result_despite_refusal"} ELSE {}
Fresh(e) ==
  IF SeqSet(e.written) \cap SeqSet(e.stale) # {} THEN {"written_file_keeps_content_of_an_earlier_run"} ELSE {}
Conforms(e) ==
  IF e.how \notin ExitNames THEN {}
  ELSE LET o == Outcome(CfgOf(e)) IN
       (IF ToString(o.exit) # e.how THEN {"exit_" \o e.how \o "_specification_" \o ToString(o.exit)} ELSE {})
       \cup (IF o.written # SeqSet(e.written) THEN {"files_written_differ"} ELSE {})
       \cup (IF o.stale # SeqSet(e.stale) THEN {"files_left_as_they_were_differ"} ELSE {})
       \cup (IF o.printed # e.printed THEN {"report_printed_differs"} ELSE {})
=============================================================================
