------------------------------ MODULE TraceProg ------------------------------
(***************************************************************************)
(* Executions of the real program against the state machine of             *)
(* spec/Program.tla.  A Prog event is one process: the configuration the   *)
(* driver realised (files present / missing / unwritable, flags), the way  *)
(* the process ended, whether stderr was empty, which output files exist   *)
(* afterwards and whether the plain report was printed.                    *)
(*   Terminal(e)   C16: deliberate exit code, error reported on stderr     *)
(*   Refused(e)    C19: a run refused with 1 / 64 / 65 leaves no result    *)
(*   Conforms(e)   DRIFT: exit code, files written and report as           *)
(*                 Program!Outcome(cfg) says                               *)
(***************************************************************************)
EXTENDS ProgramDefs, Json, IOUtils, TLC
Rec == ndJsonDeserialize(IOEnv.TRACE)

ExitNames == {"0", "1", "64", "65", "73", "74"}
SeqSet(q) == {q[i] : i \in DOMAIN q}
CfgOf(e) == [comps |-> e.cfg.comps, fsrc |-> e.cfg.fsrc, out |-> [o \in Outputs |-> e.cfg.out[o]],
             license |-> e.cfg.license, lm |-> e.cfg.lm, v |-> e.cfg.v]

Terminal(e) ==
  (IF e.how \notin ExitNames THEN {"program_ends_by_" \o e.how} ELSE {})
  \cup (IF e.how \in ExitNames /\ e.how # "0" /\ e.stderr_empty THEN {"error_not_reported_on_stderr"} ELSE {})
Refused(e) ==
  IF e.how \in {"1", "64", "65"} /\ (SeqSet(e.written) \cap {"json", "xml", "txt"} # {} \/ e.printed)
  THEN {"result_despite_refusal"} ELSE {}
Conforms(e) ==
  IF e.how \notin ExitNames THEN {}
  ELSE LET o == Outcome(CfgOf(e)) IN
       (IF ToString(o.exit) # e.how THEN {"exit_" \o e.how \o "_specification_" \o ToString(o.exit)} ELSE {})
       \cup (IF o.written # SeqSet(e.written) THEN {"files_written_differ"} ELSE {})
       \cup (IF o.printed # e.printed THEN {"report_printed_differs"} ELSE {})
=============================================================================
