----------------------------- MODULE Trace_C01 -----------------------------
(***************************************************************************)
(* C01, abstract specification P_C01: for every carrier and step of a      *)
(* recorded evaluation, ANY split of production is accepted that conserves *)
(* energy:                                                                 *)
(*    prod = used + exp,  exp = exp_nepb + exp_grid,  use = used + del,    *)
(*    all flows >= 0, used <= min(use, prod), exp_nepb <= nepb use,        *)
(*    prod_j = used_j + exp_j for each source j,  annual = sum of steps,   *)
(* and the per-step uses / productions are the sums of the components the  *)
(* evaluation was given (energy cannot disappear between the component     *)
(* list and the balance).  Balance.tla refines this (MC_C02!Conservation). *)
(***************************************************************************)
EXTENDS TraceKit

VARIABLES l, nbad
vars == <<l, nbad>>

\* the logged components are rounded to 10^-q kWh: each may be off by half a unit of its own log
Lk(e, a, b) == Abs(a - b) <= TolE(e) + (IF e.exact THEN 0 ELSE Len(e.comps) * Pow10(IMax(e.p - e.q, 0)))

StepClauses(e, c, t) ==
  LET x(p) == V(e, T(Cr(c, p), t))
      pr == x("prod.t")  us == x("prod.epus_t")  ex == x("exp.t")
      exn == x("exp.nepus_t")  exg == x("exp.grid_t")  ep == x("used.epus_t")
      ne == x("used.nepus_t")  dg == x("del.grid_t")
  IN (IF Eq(e, pr, us + ex) THEN {} ELSE {"prod_split"})
     \cup (IF Eq(e, ex, exn + exg) THEN {} ELSE {"exp_split"})
     \cup (IF Eq(e, ep, us + dg) THEN {} ELSE {"use_split"})
     \cup (IF Ge0(e, us) /\ Ge0(e, ex) /\ Ge0(e, exn) /\ Ge0(e, exg) /\ Ge0(e, dg) THEN {} ELSE {"negative_flow"})
     \cup (IF Le(e, us, IMin(ep, pr)) THEN {} ELSE {"used_gt_min"})
     \cup (IF Le(e, exn, ne) THEN {} ELSE {"nepus_gt_nepb"})
     \cup UNION {LET pj == V(e, T(Cr(c, P2("prod.by_src_t", j)), t))
                     uj == V(e, T(Cr(c, P2("prod.epus_by_src_t", j)), t))
                     ej == V(e, T(Cr(c, P2("exp.by_src_t", j)), t))
                 IN (IF Eq(e, pj, uj + ej) THEN {} ELSE {"src_split"})
                    \cup (IF Ge0(e, uj) /\ Ge0(e, ej) THEN {} ELSE {"negative_src_flow"})
                 : j \in SrcsOf(e, c)}
     \* the per-source parts add up to the totals
     \cup (IF Eq(e, us, ISumSet(LAMBDA j : V(e, T(Cr(c, P2("prod.epus_by_src_t", j)), t)), SrcsOf(e, c))) THEN {} ELSE {"src_used_sum"})
     \cup (IF Eq(e, pr, ISumSet(LAMBDA j : V(e, T(Cr(c, P2("prod.by_src_t", j)), t)), SrcsOf(e, c))) THEN {} ELSE {"src_prod_sum"})
     \* link to the components the evaluation was given
     \cup (IF Lk(e, ep, CompSum(e, LAMBDA y : CarrierOf(y) = c /\ IsEpbUse(y), t)) THEN {} ELSE {"input_link_epus"})
     \cup (IF Lk(e, ne, CompSum(e, LAMBDA y : CarrierOf(y) = c /\ IsOtherUse(y), t)) THEN {} ELSE {"input_link_nepus"})
     \cup (IF Lk(e, x("used.cgnus_t"), CompSum(e, LAMBDA y : CarrierOf(y) = c /\ IsCgnUse(y), t)) THEN {} ELSE {"input_link_cgnus"})
     \cup (IF Lk(e, pr, CompSum(e, LAMBDA y : CarrierOf(y) = c /\ IsProd(y), t)) THEN {} ELSE {"input_link_prod"})

AnnualClauses(e, c) ==
  LET an(pa, pt) == EqN(e, V(e, Cr(c, pa)), SumSteps(e, Cr(c, pt)), e.N)
  IN (IF /\ an("prod.an", "prod.t") /\ an("prod.epus_an", "prod.epus_t") /\ an("exp.grid_an", "exp.grid_t")
         /\ an("exp.nepus_an", "exp.nepus_t") /\ an("used.epus_an", "used.epus_t") /\ an("used.nepus_an", "used.nepus_t")
         /\ an("used.cgnus_an", "used.cgnus_t") /\ an("del.grid_an", "del.grid_t") /\ an("del.onst_an", "del.onst_t")
         /\ EqN(e, V(e, Cr(c, "exp.an")), SumSteps(e, Cr(c, "exp.t")), e.N)
         /\ \A j \in SrcsOf(e, c) : /\ an(P2("prod.by_src_an", j), P2("prod.by_src_t", j))
                                    /\ an(P2("prod.epus_by_src_an", j), P2("prod.epus_by_src_t", j))
                                    /\ an(P2("exp.by_src_an", j), P2("exp.by_src_t", j))
      THEN {} ELSE {"annual_sum"})

Judge(e) ==
  IF ~OK(e) THEN {}
  ELSE UNION {UNION {StepClauses(e, c, t) : t \in StepsOf(e)} \cup AnnualClauses(e, c) : c \in Crs(e)}

Init == l = 1 /\ nbad = 0
Next ==
  /\ l <= Len(Rec)
  /\ LET e == Rec[l]
         bad == Judge(e)
     IN /\ (bad # {} => PrintT(<<"VERDICT", ToJson([prop |-> "C01", case |-> e.case, tag |-> e.tag, clauses |-> bad])>>))
        /\ nbad' = nbad + (IF bad = {} THEN 0 ELSE 1)
  /\ l' = l + 1
Spec == Init /\ [][Next]_vars
Accepted ==
  LET n == TLCGet("stats").diameter - 1 IN
  IF n = Len(Rec) THEN PrintT(<<"TRACE-ACCEPTED", n>>)
  ELSE PrintT(<<"TRACE-REJECTED", n, Len(Rec)>>) /\ FALSE
=============================================================================
