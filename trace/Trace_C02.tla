----------------------------- MODULE Trace_C02 -----------------------------
(***************************************************************************)
(* C02: each Eval event of the trace carries the actual arguments of       *)
(* energy_performance (normalised components, factor list, k_exp, area,    *)
(* load matching) and every numeric field of the value it returned.  TLC   *)
(* recomputes the result with Balance!Evaluate in exact arithmetic and     *)
(* compares all fields with the tolerance rule of Rat.tla.                 *)
(***************************************************************************)
EXTENDS TraceKit

VARIABLES l, nbad, ndrift
vars == <<l, nbad, ndrift>>

Judge(e) ==
  LET oc == SpecOutcome(e) IN
  IF ~OK(e) THEN (IF e.out.err = oc THEN {} ELSE {"outcome:" \o e.out.err \o "/spec:" \o oc})
  ELSE IF oc # "Ok" THEN {"outcome:Ok/spec:" \o oc}
  ELSE DiffResult(e, SpecResult(e))

Drift(e) == IF OK(e) /\ SpecOutcome(e) = "Ok" THEN DriftPerimeters(e, SpecResult(e)) ELSE {}

Init == l = 1 /\ nbad = 0 /\ ndrift = 0
Next ==
  /\ l <= Len(Rec)
  /\ LET e == Rec[l]
         bad == IF Lattice(e) THEN Judge(e) ELSE {}
         dr == IF Lattice(e) THEN Drift(e) ELSE {}
     IN /\ (bad # {} => PrintT(<<"VERDICT", ToJson([prop |-> "C02", case |-> e.case, tag |-> e.tag, clauses |-> bad])>>))
        /\ (dr # {} => PrintT(<<"DRIFT", ToJson([prop |-> "C02", case |-> e.case, tag |-> e.tag, clauses |-> dr])>>))
        /\ nbad' = nbad + (IF bad = {} THEN 0 ELSE 1)
        /\ ndrift' = ndrift + (IF dr = {} THEN 0 ELSE 1)
  /\ l' = l + 1
Spec == Init /\ [][Next]_vars
Accepted ==
  LET n == TLCGet("stats").diameter - 1 IN
  IF n = Len(Rec) THEN PrintT(<<"TRACE-ACCEPTED", n>>)
  ELSE PrintT(<<"TRACE-REJECTED", n, Len(Rec)>>) /\ FALSE
=============================================================================
