----------------------------- MODULE Trace_C03 -----------------------------
(***************************************************************************)
(* C03: a history of evaluations of one input at k_exp = 0, 1 and interior *)
(* points (Session!SetKexp).  The trace specification keeps the k = 0 and  *)
(* k = 1 results of the current case as state and checks at every event:   *)
(*   B(k) = A + k (B(1) - A)   for every step-B quantity (per carrier, per *)
(*                             service, total, absolute and per m2) and    *)
(*                             for the exported-energy term we.exp         *)
(*   k = 0 reports step A; no export => B(k) = B(0)                        *)
(*   every other field (flows, step A, factors of the balance) equals the  *)
(*   k = 0 evaluation exactly up to the tolerance.                         *)
(* The identity is evaluated on integers: d*B(k) ~ d*A + n*(B(1) - A).     *)
(***************************************************************************)
EXTENDS TraceKit

VARIABLES l, nbad, k0, k1
vars == <<l, nbad, k0, k1>>

Trip == {"ren", "nren", "co2"}
\* pairs <<step-B path, step-A path>> of one recorded result
BAPairs(e) ==
  UNION {{<<P2(Cr(c, "we.b"), x), P2(Cr(c, "we.a"), x)>>, <<P2(Cr(c, "we.exp"), x), P2(Cr(c, "we.exp_a"), x)>>} : c \in Crs(e), x \in Trip}
  \cup UNION {{<<P3(Cr(c, "we.b_by_srv"), s, x), P3(Cr(c, "we.a_by_srv"), s, x)>> : s \in SrvsOf(e, c), x \in Trip} : c \in Crs(e)}
  \cup UNION {{<<P3(r, "we.b", x), P3(r, "we.a", x)>>, <<P3(r, "we.exp", x), P3(r, "we.exp_a", x)>>} : r \in {"bal", "m2"}, x \in Trip}
  \cup UNION {{<<P4(r, "we.b_by_srv", s, x), P4(r, "we.a_by_srv", s, x)>> : x \in Trip} :
                r \in {"bal", "m2"}, s \in UNION {SrvsOf(e, c) : c \in Crs(e)}}
KDep(e) == {pr[1] : pr \in BAPairs(e)} \cup {"rer", "rer_nrb", "rer_onst", "k_exp"}

\* "exports nothing", decided on the inputs: at no step does a carrier's production exceed its EPB use
\* (with load matching any production is partly exported)
NoExport(e) ==
  \A c \in Crs(e) : \A t \in StepsOf(e) :
    LET raw(P(_)) == ISumSet(LAMBDA i : e.comps[i].v[t], {i \in 1..Len(e.comps) : P(e.comps[i])})
        pr == raw(LAMBDA y : CarrierOf(y) = c /\ IsProd(y))
        us == raw(LAMBDA y : CarrierOf(y) = c /\ IsEpbUse(y))
    IN pr = 0 \/ (~e.lm /\ pr <= us)

MagOf(e, path) == e.mag   \* per-m2 paths use pm/magm; Tol differs by at most the rounding of the magnitude

Judge(e) ==
  IF ~OK(e) THEN (IF k0 # <<>> /\ OK(k0) THEN {"outcome_changes_with_k"} ELSE {})
  ELSE IF e.tag = "k0" THEN
     \* k = 0 reports exactly step A
     {"k0_not_stepA:" \o pr[1] : pr \in {pr \in BAPairs(e) : ~EqN(e, V(e, pr[1]), V(e, pr[2]), 2)}}
  ELSE IF k0 = <<>> \/ ~OK(k0) THEN {"outcome_changes_with_k"}
  ELSE
     LET n == e.kexp[1]  d == e.kexp[2]
         indep == DOMAIN e.out.flat \ KDep(e)
     IN {"flow_depends_on_k:" \o p : p \in {p \in indep : p \notin DOMAIN k0.out.flat \/ ~EqN(e, V(e, p), V(k0, p), 2)}}
        \cup (IF DOMAIN e.out.flat = DOMAIN k0.out.flat THEN {} ELSE {"fields_depend_on_k"})
        \cup (IF e.tag = "k100" \/ k1 = <<>> THEN {}
              ELSE {"not_affine:" \o pr[1] : pr \in {pr \in BAPairs(e) :
                      Abs(d * V(e, pr[1]) - (d * V(k0, pr[2]) + n * (V(k1, pr[1]) - V(k0, pr[2])))) > (2 * d + n) * TolE(e)}})
        \cup (IF NoExport(e)
              THEN {"k_matters_without_export:" \o pr[1] : pr \in {pr \in BAPairs(e) : ~EqN(e, V(e, pr[1]), V(k0, pr[1]), 2)}}
              ELSE {})

Init == l = 1 /\ nbad = 0 /\ k0 = <<>> /\ k1 = <<>>
Next ==
  /\ l <= Len(Rec)
  /\ LET e == Rec[l]
         bad == Judge(e)
     IN /\ (bad # {} => PrintT(<<"VERDICT", ToJson([prop |-> "C03", case |-> e.case, tag |-> e.tag, clauses |-> bad])>>))
        /\ nbad' = nbad + (IF bad = {} THEN 0 ELSE 1)
        /\ k0' = IF e.tag = "k0" THEN e ELSE k0
        /\ k1' = IF e.tag = "k0" THEN <<>> ELSE IF e.tag = "k100" THEN e ELSE k1
  /\ l' = l + 1
Spec == Init /\ [][Next]_vars
Accepted ==
  LET n == TLCGet("stats").diameter - 1 IN
  IF n = Len(Rec) THEN PrintT(<<"TRACE-ACCEPTED", n>>)
  ELSE PrintT(<<"TRACE-REJECTED", n, Len(Rec)>>) /\ FALSE
=============================================================================
