----------------------------- MODULE Trace_C04 -----------------------------
(***************************************************************************)
(* C04: the aggregation schema.  Schema(e) builds, from the carriers,      *)
(* services and sources of a recorded result, the table                    *)
(*     path of the global balance  |->  set of per-carrier paths it sums   *)
(* (AddAssign<&BalanceCarrier> for Balance), and the trace specification   *)
(* checks for every recorded evaluation that                               *)
(*   - every path of the table is present and equals the sum,              *)
(*   - the breakdowns add up to their totals,                              *)
(*   - balance_m2 has the same paths and m2 * area = absolute,             *)
(*   - a path of balance that is not in the table is reported as DRIFT     *)
(*     (the schema must grow), never silently ignored,                     *)
(* and, over a history with several areas (Session!SetArea), that nothing  *)
(* except balance_m2 and arearef moves.                                    *)
(***************************************************************************)
EXTENDS TraceKit

VARIABLES l, nbad, base
vars == <<l, nbad, base>>

Trip == {"ren", "nren", "co2"}
AllSrv(e) == UNION {SrvsOf(e, c) : c \in Crs(e)}
AllSrc(e) == UNION {SrcsOf(e, c) : c \in Crs(e)}
CrWithSrv(e, s) == {c \in Crs(e) : s \in SrvsOf(e, c)}
CrOfSrc(e, j) == {c \in Crs(e) : j \in SrcsOf(e, c)}

\* scalar fields: global suffix |-> per-carrier field
Scalars == {<<"used.epus", "used.epus_an">>, <<"used.nepus", "used.nepus_an">>, <<"used.cgnus", "used.cgnus_an">>,
            <<"prod.an", "prod.an">>, <<"del.an", "del.an">>, <<"del.onst", "del.onst_an">>, <<"del.grid", "del.grid_an">>,
            <<"exp.an", "exp.an">>, <<"exp.nepus", "exp.nepus_an">>, <<"exp.grid", "exp.grid_an">>}
Triples == {<<"we.a", "we.a">>, <<"we.b", "we.b">>, <<"we.del", "we.del">>, <<"we.exp_a", "we.exp_a">>, <<"we.exp", "we.exp">>}

\* the table: set of <<global suffix, set of per-carrier full paths>>
Schema(e) ==
  {<<sc[1], {Cr(c, sc[2]) : c \in Crs(e)}>> : sc \in Scalars}
  \cup {<<P2(tr[1], x), {Cr(c, P2(tr[2], x)) : c \in Crs(e)}>> : tr \in Triples, x \in Trip}
  \cup {<<P2("used.epus_by_srv", s), {Cr(c, P2("used.epus_by_srv_an", s)) : c \in CrWithSrv(e, s)}>> : s \in AllSrv(e)}
  \cup UNION {{<<P3("used.epus_by_cr_by_srv", s, c), {Cr(c, P2("used.epus_by_srv_an", s))}>> : c \in CrWithSrv(e, s)} : s \in AllSrv(e)}
  \cup UNION {{<<P3("we.a_by_srv", s, x), {Cr(c, P3("we.a_by_srv", s, x)) : c \in CrWithSrv(e, s)}>> : x \in Trip} : s \in AllSrv(e)}
  \cup UNION {{<<P3("we.b_by_srv", s, x), {Cr(c, P3("we.b_by_srv", s, x)) : c \in CrWithSrv(e, s)}>> : x \in Trip} : s \in AllSrv(e)}
  \cup {<<P2("prod.by_src", j), {Cr(c, P2("prod.by_src_an", j)) : c \in CrOfSrc(e, j)}>> : j \in AllSrc(e)}
  \cup {<<P2("prod.epus_by_src", j), {Cr(c, P2("prod.epus_by_src_an", j)) : c \in CrOfSrc(e, j)}>> : j \in AllSrc(e)}
  \cup UNION {UNION {{<<P3("prod.epus_by_srv_by_src", j, s), {Cr(c, P3("prod.epus_by_srv_by_src_an", j, s))}>> : s \in SrvsOf(e, c)} : c \in CrOfSrc(e, j)} : j \in AllSrc(e)}
  \* maps by carrier only have the carriers whose value is not zero
  \cup {<<P2("prod.by_cr", c), {Cr(c, "prod.an")}>> : c \in {c \in Crs(e) : V(e, Cr(c, "prod.an")) # 0}}
  \cup {<<P2("del.grid_by_cr", c), {Cr(c, "del.grid_an")}>> : c \in {c \in Crs(e) : V(e, Cr(c, "del.grid_an")) # 0}}
  \cup {<<P2("used.epus_by_cr", c), {Cr(c, "used.epus_an")}>> : c \in {c \in Crs(e) : V(e, Cr(c, "used.epus_an")) # 0}}

HasEpbUse(e, c) == \E i \in 1..Len(e.comps) : CarrierOf(e.comps[i]) = c /\ IsEpbUse(e.comps[i]) /\ ISumSeq(e.comps[i].v) > 0
NeedKeys == {"needs.ACS", "needs.CAL", "needs.REF"}
BalKeys(e) == SeqSet(e.out.balkeys)
M2Keys(e) == SeqSet(e.out.m2keys)
\* (a path that is missing is reported by SchemaClauses; here it counts as 0 so that the other clauses can still be evaluated)
B(e, k) == IF HasP(e, P2("bal", k)) THEN V(e, P2("bal", k)) ELSE 0
M(e, k) == V(e, P2("m2", k))
SumOver(e, PS) == ISumSet(LAMBDA pp : V(e, pp), PS)
NC(e) == Cardinality(Crs(e)) + 1

\* by_cr maps may legitimately omit a carrier whose value rounds to zero in the log
OptionalKeys(e) == {P2("prod.by_cr", c) : c \in Crs(e)} \cup {P2("del.grid_by_cr", c) : c \in Crs(e)}
                   \cup {P2("used.epus_by_cr", c) : c \in Crs(e)}

SchemaClauses(e) ==
  LET sch == Schema(e)
      expected == {x[1] : x \in sch}
      present == BalKeys(e) \ NeedKeys
  IN {"missing:" \o k : k \in (expected \ present) \ OptionalKeys(e)}
     \cup {"not_sum:" \o x[1] : x \in {x \in sch : x[1] \in present /\ (\E p \in x[2] : ~HasP(e, p) \/ ~EqN(e, B(e, x[1]), SumOver(e, x[2]), NC(e)))}}

DriftClauses(e) ==
  LET expected == {x[1] : x \in Schema(e)} \cup OptionalKeys(e) IN
  {"path_not_in_schema:" \o k : k \in (BalKeys(e) \ NeedKeys) \ expected}

BreakdownClauses(e) ==
  LET n == NC(e) * 3
      sumk(pre, KS) == ISumSet(LAMBDA s : B(e, P2(pre, s)), KS)
      crNZ(field) == {c \in Crs(e) : HasP(e, P3("bal", field, c))}
      ok(cond, name) == IF cond THEN {} ELSE {name}
  IN ok(EqN(e, B(e, "used.epus"), sumk("used.epus_by_srv", AllSrv(e)), n), "epus_by_srv")
     \cup ok(EqN(e, B(e, "used.epus"), sumk("used.epus_by_cr", crNZ("used.epus_by_cr")), n), "epus_by_cr")
     \cup ok(EqN(e, B(e, "prod.an"), sumk("prod.by_src", AllSrc(e)), n), "prod_by_src")
     \cup ok(EqN(e, B(e, "prod.an"), sumk("prod.by_cr", crNZ("prod.by_cr")), n), "prod_by_cr")
     \cup ok(\A j \in AllSrc(e) : EqN(e, B(e, P2("prod.epus_by_src", j)),
                ISumSet(LAMBDA s : B(e, P3("prod.epus_by_srv_by_src", j, s)), UNION {SrvsOf(e, c) : c \in CrOfSrc(e, j)}), n), "epus_by_srv_by_src")
     \* produced-and-used energy of a carrier = sum over its sources (the statement: "produced-and-used energy by source")
     \cup ok(\A c \in Crs(e) : SrcsOf(e, c) = {} \/ ~HasP(e, Cr(c, "prod.epus_an")) \/
                EqN(e, V(e, Cr(c, "prod.epus_an")),
                    ISumSet(LAMBDA j : IF HasP(e, Cr(c, P2("prod.epus_by_src_an", j))) THEN V(e, Cr(c, P2("prod.epus_by_src_an", j))) ELSE 0, SrcsOf(e, c)), n),
             "epus_by_src")
     \cup ok(EqN(e, B(e, "del.an"), B(e, "del.grid") + B(e, "del.onst") + B(e, "used.cgnus"), n), "del_parts")
     \cup ok(EqN(e, B(e, "del.grid"), sumk("del.grid_by_cr", crNZ("del.grid_by_cr")), n), "del_grid_by_cr")
     \cup ok(EqN(e, B(e, "exp.an"), B(e, "exp.grid") + B(e, "exp.nepus"), n), "exp_parts")
     \* weighted energy by service adds up to the weighted energy of the carriers that have EPB use
     \* (decided on the components the evaluation was given, not on rounded results)
     \cup ok(\A x \in Trip : EqN(e, ISumSet(LAMBDA s : B(e, P3("we.b_by_srv", s, x)), AllSrv(e)),
                ISumSet(LAMBDA c : V(e, Cr(c, P2("we.b", x))), {c \in Crs(e) : HasEpbUse(e, c)}), n), "we_b_by_srv")
     \cup ok(\A x \in Trip : EqN(e, ISumSet(LAMBDA s : B(e, P3("we.a_by_srv", s, x)), AllSrv(e)),
                ISumSet(LAMBDA c : V(e, Cr(c, P2("we.a", x))), {c \in Crs(e) : HasEpbUse(e, c)}), n), "we_a_by_srv")

\* per m2 = absolute / area:  m2 * n ~ abs * d (area = n/d), both sides brought to the coarser unit
M2Clauses(e) ==
  LET an == e.area[1]  ad == e.area[2]
      dp == e.pm - e.p       \* m2 values are logged with pm decimals, absolute with p
      lhs(k) == IF dp >= 0 THEN M(e, k) * an ELSE M(e, k) * an * Pow10(-dp)
      rhs(k) == IF dp >= 0 THEN B(e, k) * ad * Pow10(dp) ELSE B(e, k) * ad
      \* results read from the program's JSON document are rounded to three decimals on both sides
      cli == "cli" \in DOMAIN e /\ e.cli
      resM == IF cli THEN Pow10(IMax(e.pm - 3, 0)) ELSE 0
      resB == IF cli THEN Pow10(IMax(e.p - 3, 0)) ELSE 0
      tol == (IF dp >= 0 THEN (Tol(e.magm) + resM) * an + (Tol(e.mag) + resB) * ad * Pow10(dp)
              ELSE (Tol(e.magm) + resM) * an * Pow10(-dp) + (Tol(e.mag) + resB) * ad) + an + ad
      \* values too large for the cross products to stay inside 32 bits are compared after scaling both down
      big(k) == Abs(M(e, k)) > 2000000000 \div (an * Pow10(IMax(-dp, 0)) + 1) \/ Abs(B(e, k)) > 2000000000 \div (ad * Pow10(IMax(dp, 0)) + 1)
      okk(k) == IF big(k) THEN LET f == 1000 IN Abs((M(e, k) \div f) * an * Pow10(IMax(-dp, 0)) - (B(e, k) \div f) * ad * Pow10(IMax(dp, 0))) <= (tol \div f) + an + ad + an * Pow10(IMax(-dp, 0)) + ad * Pow10(IMax(dp, 0))
                ELSE Abs(lhs(k) - rhs(k)) <= tol
  IN (IF M2Keys(e) = BalKeys(e) THEN {} ELSE {"m2_paths_differ"})
     \cup {"m2_not_abs_over_area:" \o k : k \in {k \in M2Keys(e) \cap BalKeys(e) : ~okk(k)}}

\* history: same input, another area
AreaClauses(e) ==
  IF base = <<>> \/ ~OK(base) THEN {}
  ELSE LET same == (DOMAIN e.out.flat \ ({P2("m2", k) : k \in M2Keys(e)} \cup {"arearef"} \cup Ratios)) IN
       {"moves_with_area:" \o p : p \in {p \in same : p \notin DOMAIN base.out.flat \/ ~EqN(e, V(e, p), V(base, p), 2)}}
       \cup {"moves_with_area:" \o p : p \in {p \in Ratios : ~RatioEq(e, V(e, p), V(base, p))}}

\* a history starts with a base evaluation (one without and one with load matching)
IsBase(e) == e.tag \in {"base", "base-lm"}
Judge(e) ==
  IF ~OK(e) THEN (IF ~IsBase(e) /\ base # <<>> /\ OK(base) THEN {"outcome_changes_with_area"} ELSE {})
  ELSE SchemaClauses(e) \cup BreakdownClauses(e) \cup M2Clauses(e) \cup (IF IsBase(e) THEN {} ELSE AreaClauses(e))

Init == l = 1 /\ nbad = 0 /\ base = <<>>
Next ==
  /\ l <= Len(Rec)
  /\ LET e == Rec[l]
         bad == Judge(e)
         dr == IF OK(e) THEN DriftClauses(e) ELSE {}
     IN /\ (bad # {} => PrintT(<<"VERDICT", ToJson([prop |-> "C04", case |-> e.case, tag |-> e.tag, clauses |-> bad])>>))
        /\ (dr # {} => PrintT(<<"DRIFT", ToJson([prop |-> "C04", case |-> e.case, tag |-> e.tag, clauses |-> dr])>>))
        /\ nbad' = nbad + (IF bad = {} THEN 0 ELSE 1)
        /\ base' = IF IsBase(e) THEN e ELSE base
  /\ l' = l + 1
Spec == Init /\ [][Next]_vars
Accepted ==
  LET n == TLCGet("stats").diameter - 1 IN
  IF n = Len(Rec) THEN PrintT(<<"TRACE-ACCEPTED", n>>)
  ELSE PrintT(<<"TRACE-REJECTED", n, Len(Rec)>>) /\ FALSE
=============================================================================
