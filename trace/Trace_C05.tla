----------------------------- MODULE Trace_C05 -----------------------------
(* C05 on recorded normalisations: see TraceComp.  Conformance to the state *)
(* machine under the observed schedule is reported as DRIFT (attribution    *)
(* rule), the closed form of C05 as VERDICT.                                *)
EXTENDS TraceComp, TLC
VARIABLES l, nbad
vars == <<l, nbad>>

Judge(e) ==
  IF ~e.out.ok THEN
     \* the specification accepts the file: an error or a panic is a violation of "is read"
     (IF \A id \in AuxIds(e.input) : \A r \in AuxIdOp(FromObs(e.input, e.q), id) : r.ok
      THEN {"valid_file_refused:" \o e.out.err} ELSE {})
  ELSE C05Clauses(e)
Drift(e) == Conformance(e) \cup (IF ScheduleComplete(e) THEN {} ELSE {"schedule_incomplete"})

Init == l = 1 /\ nbad = 0
Next ==
  /\ l <= Len(Rec)
  /\ LET e == Rec[l]
         bad == IF e.ev = "Parse" THEN Judge(e) ELSE {}
         dr == IF e.ev = "Parse" THEN Drift(e) ELSE {}
     IN /\ (bad # {} => PrintT(<<"VERDICT", ToJson([prop |-> "C05", case |-> e.case, tag |-> e.tag, clauses |-> bad])>>))
        /\ (dr # {} => PrintT(<<"DRIFT", ToJson([prop |-> "C05", case |-> e.case, tag |-> e.tag, clauses |-> dr])>>))
        /\ (e.ev = "Parse" => PrintT(<<"NOTE", ToJson([sched |-> [k \in 1..Len(e.steps) |-> <<e.steps[k].ev, e.steps[k].carrier, e.steps[k].id>>], case |-> e.case])>>))
        /\ nbad' = nbad + (IF bad = {} THEN 0 ELSE 1)
  /\ l' = l + 1
Spec == Init /\ [][Next]_vars
Accepted ==
  LET n == TLCGet("stats").diameter - 1 IN
  IF n = Len(Rec) THEN PrintT(<<"TRACE-ACCEPTED", n>>)
  ELSE PrintT(<<"TRACE-REJECTED", n, Len(Rec)>>) /\ FALSE
=============================================================================
