----------------------------- MODULE Trace_C06 -----------------------------
(***************************************************************************)
(* C06 on recorded normalisations (Parse events, abstract specification    *)
(* P_C06 per system, see TraceComp / Components) and on the evaluation     *)
(* that follows (Eval events): the auxiliary energy assigned to EPB        *)
(* services is part of the EPB electricity use of the balance, also when   *)
(* the building has no other electricity component.                        *)
(* Conformance to the normalisation state machine under the observed       *)
(* schedule is reported as DRIFT.                                          *)
(***************************************************************************)
EXTENDS TraceComp, TLC
VARIABLES l, nbad
vars == <<l, nbad>>

(***************************************************************************)
(* History  Parse ; AddAux(id, 1 kWh per step) ; Normalize  on the parsed  *)
(* set: the auxiliary energy of the system is then what it was plus what   *)
(* was added (every declared kWh is kept, also the ones assigned by an     *)
(* earlier normalisation), no share is negative and the other systems'     *)
(* auxiliaries are as they were.                                           *)
(***************************************************************************)
ReaddClauses(e) ==
  IF "readd" \notin DOMAIN e.out THEN {}
  ELSE LET r == e.out.readd IN
       IF ~r.ok THEN (IF r.err = "Panic" THEN {"panic_while_assigning_added_auxiliaries"} ELSE {})   \* (a typed refusal can be right: auxiliary energy now positive without any output energy)
       ELSE LET B == e.out.data  A == r.data
                auxOf(C, id) == {i \in 1..Len(C) : IsAux(C[i]) /\ C[i].id = id}
                sumAt(C, I, t) == ISumSet(LAMBDA i : C[i].v[t], I)
                ids == {B[i].id : i \in {i \in 1..Len(B) : IsAux(B[i])}}
                tol(C, id) == Cardinality(auxOf(C, id)) + 2
            IN (IF \A t \in 1..e.N : Abs(sumAt(A, auxOf(A, r.id), t) - (sumAt(B, auxOf(B, r.id), t) + r.add[t])) <= tol(A, r.id) + tol(B, r.id)
                THEN {} ELSE {"added_auxiliaries_not_conserved"})
               \cup (IF \A i \in auxOf(A, r.id) : \A t \in 1..e.N : A[i].v[t] >= 0 \/ \E j \in auxOf(B, r.id) : B[j].v[t] < 0 THEN {} ELSE {"negative_aux_share_after_adding"})
               \cup (IF \A id \in ids \ {r.id} : \A t \in 1..e.N : Abs(sumAt(A, auxOf(A, id), t) - sumAt(B, auxOf(B, id), t)) <= tol(A, id) + tol(B, id)
                     THEN {} ELSE {"other_systems_auxiliaries_changed_by_adding"})

JudgeParse(e) ==
  IF ~e.out.ok THEN
     (IF e.out.err = "Panic" THEN {"panic_while_assigning_auxiliaries"}
      ELSE IF ClearCut(e) THEN {"clear_cut_file_refused:" \o e.out.err} ELSE {})
  ELSE IF \E i \in 1..Len(e.out.data) : Len(e.out.data[i].v) # e.N THEN {"component_with_wrong_number_of_steps"}
  ELSE UNION {C06IdClauses(e, id) : id \in AuxIds(e.input)} \cup ReaddClauses(e)

\* Eval event: flat result + the normalised components it was computed from
EL == "ELECTRICIDAD"
Pw(e) == IF e.p >= e.q THEN Pow10(e.p - e.q) ELSE 1
ToUnit(e, x) == IF e.p >= e.q THEN x * Pow10(e.p - e.q) ELSE (x + (Pow10(e.q - e.p) \div 2)) \div Pow10(e.q - e.p)
JudgeEval(e) ==
  IF ~e.out.ok THEN (IF e.out.err = "Panic" THEN {"panic_in_evaluation"} ELSE {})
  ELSE IF \E i \in 1..Len(e.comps) : e.comps[i].kind # "NEED" /\ Len(e.comps[i].v) # e.N THEN {"component_with_wrong_number_of_steps"}
  ELSE LET C == e.comps
           auxEpb == {i \in 1..Len(C) : IsAux(C[i]) /\ C[i].srv \in EpbSrv}
           elUse == {i \in 1..Len(C) : IsUsed(C[i]) /\ C[i].cr = EL /\ C[i].srv \in EpbSrv}
           crs == {e.out.crs[i] : i \in DOMAIN e.out.crs}
           \* the logged components are rounded to 10^-q: half a unit each
           tol == (e.mag \div 20000) + 2 + (IF e.exact THEN 0 ELSE Len(C) * Pw(e))
       IN IF auxEpb = {} THEN {}
          ELSE IF EL \notin crs THEN
                 (IF \E i \in auxEpb : \E t \in 1..e.N : C[i].v[t] # 0 THEN {"auxiliaries_not_in_any_balance"} ELSE {})
          ELSE (IF \A t \in 1..e.N :
                      Abs(e.out.flat["cr.ELECTRICIDAD.used.epus_t." \o ToString(t)]
                          - ToUnit(e, ISumSet(LAMBDA i : C[i].v[t], auxEpb \cup elUse))) <= tol
                THEN {} ELSE {"auxiliaries_not_counted_as_epb_use"})

Drift(e) == Conformance(e) \cup (IF ScheduleComplete(e) THEN {} ELSE {"schedule_incomplete"})

Init == l = 1 /\ nbad = 0
Next ==
  /\ l <= Len(Rec)
  /\ LET e == Rec[l]
         bad == IF e.ev = "Parse" THEN JudgeParse(e) ELSE IF "comps" \in DOMAIN e THEN JudgeEval(e) ELSE {}
         dr == IF e.ev = "Parse" THEN Drift(e) ELSE {}
     IN /\ (bad # {} => PrintT(<<"VERDICT", ToJson([prop |-> "C06", case |-> e.case, tag |-> e.tag, clauses |-> bad])>>))
        /\ (dr # {} => PrintT(<<"DRIFT", ToJson([prop |-> "C06", case |-> e.case, tag |-> e.tag, clauses |-> dr])>>))
        /\ (e.ev = "Parse" => PrintT(<<"NOTE", ToJson([sched |-> [k \in 1..Len(e.steps) |-> <<e.steps[k].ev, e.steps[k].carrier, e.steps[k].id>>], case |-> e.case])>>))
        /\ nbad' = nbad + (IF bad = {} THEN 0 ELSE 1)
  /\ l' = l + 1
Spec == Init /\ [][Next]_vars
Accepted ==
  LET n == TLCGet("stats").diameter - 1 IN
  IF n = Len(Rec) THEN PrintT(<<"TRACE-ACCEPTED", n>>)
  ELSE PrintT(<<"TRACE-REJECTED", n, Len(Rec)>>) /\ FALSE
=============================================================================
