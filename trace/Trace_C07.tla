----------------------------- MODULE Trace_C07 -----------------------------
(***************************************************************************)
(* C07 on the real library.  Prepare events carry a factor file (lines in  *)
(* thousandths, user RED1 / RED2) and what cte::wfactors_from_str returned *)
(* for it, plus the result of preparing that result again.  The clauses of *)
(* the property are evaluated on (file, prepared list); disagreement with  *)
(* the detailed specification Factors!FromList beyond them is DRIFT.       *)
(* Eval events are the building shapes of MC_C07 evaluated with the        *)
(* prepared set: none may fail with a missing factor, and the look-ups     *)
(* recorded by the Find hook must be the ones the specification predicts   *)
(* (binding of Needed; DRIFT).                                             *)
(***************************************************************************)
EXTENDS Factors, Json, IOUtils
Rec == ndJsonDeserialize(IOEnv.TRACE)
VARIABLES l, nbad
vars == <<l, nbad>>

Opt(x) == IF x = <<>> THEN NoUser ELSE x
Forced == {Key("EAMBIENTE", "INSITU", "SUMINISTRO", "A"), Key("EAMBIENTE", "RED", "SUMINISTRO", "A"),
           Key("TERMOSOLAR", "INSITU", "SUMINISTRO", "A"), Key("TERMOSOLAR", "RED", "SUMINISTRO", "A"),
           Key("ELECTRICIDAD", "INSITU", "SUMINISTRO", "A")}
KRed1 == Key("RED1", "RED", "SUMINISTRO", "A")
KRed2 == Key("RED2", "RED", "SUMINISTRO", "A")
Usable(F) == \A c \in CarriersOf(F) \ {"EAMBIENTE", "TERMOSOLAR"} : Has(F, Key(c, "RED", "SUMINISTRO", "A"))
Strip_(F) == [i \in 1..Len(F) |-> Fac(F[i].cr, F[i].src, F[i].dest, F[i].step, F[i].m)]

JudgePrepare(e) ==
  LET lines == Strip_(e.lines)  r1 == Opt(e.red1)  r2 == Opt(e.red2)
      ok(c, name) == IF c THEN {} ELSE {name}
  IN IF ~e.out.ok THEN
        (IF e.out.err = "Panic" THEN {"panic_in_prepare"}
         ELSE ok(~Usable(lines), "usable_set_rejected:" \o e.out.err))
     ELSE
        LET F == Strip_(e.out.list) IN
        ok(Usable(lines), "unusable_set_accepted")
        \cup ok(\A i \in 1..Len(lines) :
                  LET k == KeyOf(lines[i]) IN
                  (FindIdx(lines, k, 1) = i /\ k \notin Forced /\ ~(k = KRed1 /\ r1 # NoUser) /\ ~(k = KRed2 /\ r2 # NoUser))
                     => Has(F, k) /\ FindM(F, k) = lines[i].m, "user_factor_changed")
        \cup ok(\A c \in {"ELECTRICIDAD", "EAMBIENTE", "TERMOSOLAR"} : \A d \in {"A_RED", "A_NEPB"} :
                  /\ (~Has(lines, Key(c, "INSITU", d, "A")) /\ Has(F, Key(c, "INSITU", "SUMINISTRO", "A")))
                        => Has(F, Key(c, "INSITU", d, "A")) /\ FindM(F, Key(c, "INSITU", d, "A")) = FindM(F, Key(c, "INSITU", "SUMINISTRO", "A"))
                  /\ (~Has(lines, Key(c, "INSITU", d, "B")) /\ Has(F, Key(c, "RED", "SUMINISTRO", "A")))
                        => Has(F, Key(c, "INSITU", d, "B")) /\ FindM(F, Key(c, "INSITU", d, "B")) = FindM(F, Key(c, "RED", "SUMINISTRO", "A")),
                "export_default_from_wrong_factor")
        \cup ok(\A c \in {"EAMBIENTE", "TERMOSOLAR"} : FindM(F, Key(c, "INSITU", "SUMINISTRO", "A")) = Ren1 /\ FindM(F, Key(c, "RED", "SUMINISTRO", "A")) = Ren1, "forced_factor_not_1_0_0")
        \cup ok("ELECTRICIDAD" \notin CarriersOf(lines) \/ FindM(F, Key("ELECTRICIDAD", "INSITU", "SUMINISTRO", "A")) = Ren1, "forced_factor_not_1_0_0")
        \cup ok(FindM(F, KRed1) = (IF r1 # NoUser THEN r1 ELSE IF Has(lines, KRed1) THEN FindM(lines, KRed1) ELSE DefaultRedM), "red1_precedence")
        \cup ok(FindM(F, KRed2) = (IF r2 # NoUser THEN r2 ELSE IF Has(lines, KRed2) THEN FindM(lines, KRed2) ELSE DefaultRedM), "red2_precedence")
        \cup ok(e.out.again.ok /\ Strip_(e.out.again.list) = F, "prepare_not_idempotent")

DriftPrepare(e) ==
  LET r == FromList(Strip_(e.lines), Opt(e.red1), Opt(e.red2)) IN
  (IF e.out.ok /\ r.ok /\ Strip_(e.out.list) # r.f THEN {"prepared_list_differs_from_specification"} ELSE {})
  \cup (IF e.out.ok /\ "nearby" \in DOMAIN e.out
        THEN (IF e.out.nearby.ok /\ e.out.nearby.perimeter
                 /\ Strip_(e.out.nearby.list) = ToNearby(Strip_(e.out.list), {"BIOMASA", "BIOMASADENSIFICADA", "RED1", "RED2", "EAMBIENTE", "TERMOSOLAR"})
              THEN {} ELSE {"to_nearby_differs_from_specification"})
        ELSE {})

\* Eval events of the shapes
KeysFound(e) == {<<e.finds[i].k[1], e.finds[i].k[2], e.finds[i].k[3], e.finds[i].k[4]>> : i \in 1..Len(e.finds)}
JudgeEval(e) ==
  IF e.out.ok THEN {}
  ELSE IF e.out.err \in {"MissingFactor", "Panic"} THEN {"shape_not_evaluated:" \o e.out.err \o "@" \o e.out.stage}
  ELSE {}
DriftEval(e) ==
  IF ~e.out.ok \/ ~("finds" \in DOMAIN e) THEN {}
  ELSE LET C == e.comps  F == Strip_(e.fac)
           needed == NeededKeys(C, F, Norm(e.kexp[1], e.kexp[2]), e.lm, e.N)
       IN IF KeysFound(e) = needed THEN {} ELSE {"lookups_differ_from_Needed"}

Init == l = 1 /\ nbad = 0
Next ==
  /\ l <= Len(Rec)
  /\ LET e == Rec[l]
         bad == IF e.ev = "Prepare" THEN JudgePrepare(e) ELSE JudgeEval(e)
         dr == IF e.ev = "Prepare" THEN DriftPrepare(e) ELSE DriftEval(e)
     IN /\ (bad # {} => PrintT(<<"VERDICT", ToJson([prop |-> "C07", case |-> e.case, tag |-> e.tag, clauses |-> bad])>>))
        /\ (dr # {} => PrintT(<<"DRIFT", ToJson([prop |-> "C07", case |-> e.case, tag |-> e.tag, clauses |-> dr])>>))
        /\ nbad' = nbad + (IF bad = {} THEN 0 ELSE 1)
  /\ l' = l + 1
Spec == Init /\ [][Next]_vars
Accepted ==
  LET n == TLCGet("stats").diameter - 1 IN
  IF n = Len(Rec) THEN PrintT(<<"TRACE-ACCEPTED", n>>)
  ELSE PrintT(<<"TRACE-REJECTED", n, Len(Rec)>>) /\ FALSE
=============================================================================
