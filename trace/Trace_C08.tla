----------------------------- MODULE Trace_C08 -----------------------------
(***************************************************************************)
(* C08: Session history  Evaluate(full set) ; Strip ; Evaluate(stripped).  *)
(* Stripping must be invisible: same outcome class (never Ok -> error,     *)
(* never a panic in strip or afterwards) and, when Ok, every numeric field *)
(* equal.  The logged stripped set must be a sub-list of the full set      *)
(* (strip only removes).  Model level: Factors!Strip keeps every key an    *)
(* evaluation looks up (MC_C02!CheckStrip).                                *)
(***************************************************************************)
EXTENDS TraceKit

VARIABLES l, nbad, full
vars == <<l, nbad, full>>

Keys_(F) == {<<F[i].cr, F[i].src, F[i].dest, F[i].step, F[i].m>> : i \in 1..Len(F)}

Judge(e) ==
  IF e.tag = "full" THEN (IF ~OK(e) /\ e.out.err = "Panic" THEN {} ELSE {})
  ELSE IF full = <<>> THEN {}
  ELSE IF ~OK(e) /\ e.out.err = "Panic" /\ e.out.stage = "strip" THEN {"panic_in_strip"}
  ELSE IF ~OK(e) /\ e.out.err = "Panic" /\ OK(full) THEN {"panic_with_stripped_set:" \o e.out.stage}
  ELSE IF OK(full) /\ ~OK(e) THEN {"ok_becomes_error:" \o e.out.err}
  ELSE IF ~OK(full) THEN
       \* the statement only promises that a success stays a success
       {}
  ELSE (IF Keys_(e.fac) \subseteq Keys_(full.fac) THEN {} ELSE {"strip_adds_or_changes_factors"})
       \cup (IF DOMAIN e.out.flat = DOMAIN full.out.flat THEN {} ELSE {"fields_differ"})
       \cup {"result_differs:" \o p : p \in {p \in (DOMAIN full.out.flat \ Ratios) : HasP(e, p) /\ ~EqN(e, V(e, p), V(full, p), 2)}}
       \cup {"result_differs:" \o p : p \in {p \in Ratios : ~RatioEq(e, V(e, p), V(full, p))}}

Nontrivial(e) == e.tag = "strip" /\ full # <<>> /\ Has_(e, "fac") /\ Has_(full, "fac") /\ Len(e.fac) < Len(full.fac)

Init == l = 1 /\ nbad = 0 /\ full = <<>>
Next ==
  /\ l <= Len(Rec)
  /\ LET e == Rec[l]
         bad == Judge(e)
     IN /\ (bad # {} => PrintT(<<"VERDICT", ToJson([prop |-> "C08", case |-> e.case, tag |-> e.tag, clauses |-> bad])>>))
        /\ (Nontrivial(e) => PrintT(<<"NOTE", ToJson([nontrivial |-> e.case])>>))
        /\ nbad' = nbad + (IF bad = {} THEN 0 ELSE 1)
        /\ full' = IF e.tag = "full" THEN e ELSE full
  /\ l' = l + 1
Spec == Init /\ [][Next]_vars
Accepted ==
  LET n == TLCGet("stats").diameter - 1 IN
  IF n = Len(Rec) THEN PrintT(<<"TRACE-ACCEPTED", n>>)
  ELSE PrintT(<<"TRACE-REJECTED", n, Len(Rec)>>) /\ FALSE
=============================================================================
