----------------------------- MODULE Trace_C09 -----------------------------
(***************************************************************************)
(* C09: Session transforms of the time layout,                             *)
(*   Permute(pi)   : new[t] = old[pi[t]] for every component               *)
(*   Subdivide(m)  : every step becomes m equal sub-steps with 1/m of its  *)
(*                   energy                                                *)
(* on histories  Evaluate(base) ; Transform ; Evaluate.  The trace         *)
(* specification first checks that the logged transformed input is the     *)
(* specification's transform of the base input (binding of the transform), *)
(* then that every annual field is unchanged and every per-step vector is  *)
(* the permuted / subdivided vector of the base evaluation.                *)
(***************************************************************************)
EXTENDS TraceKit

VARIABLES l, nbad, base
vars == <<l, nbad, base>>

IsPerm(e) == Has_(e.run, "perm")
IsSub(e) == Has_(e.run, "sub")
TKeys(e) == SeqSet(e.out.tkeys)
FKeys(e) == SeqSet(e.out.fkeys)
StepPaths(e) == {T(k, t) : k \in TKeys(e) \cup FKeys(e), t \in StepsOf(e)}

\* logged values have the unit 10^-q of their own event
Unit(e, v) == v * Pow10(2 - e.q)      \* everything in 1/100 kWh
PermInputOk(b, e) ==
  /\ Len(e.comps) = Len(b.comps) /\ e.N = b.N
  /\ \A i \in 1..Len(e.comps) : \A t \in 1..e.N : e.comps[i].v[t] = b.comps[i].v[e.run.perm[t]]
SubInputOk(b, e) ==
  LET m == e.run.sub IN
  /\ Len(e.comps) = Len(b.comps) /\ e.N = m * b.N
  /\ \A i \in 1..Len(e.comps) : \A t \in 1..b.N :
        Abs(ISumSet(LAMBDA j : Unit(e, e.comps[i].v[(t - 1) * m + j]), 1..m) - Unit(b, b.comps[i].v[t])) <= m

Judge(e) ==
  IF e.tag = "base" THEN {}
  ELSE IF base = <<>> \/ ~OK(base) THEN {}
  ELSE IF ~OK(e) THEN {"outcome_changes_with_layout"}
  ELSE
    LET b == base
        \* a by-carrier entry present on one side only (the maps omit exact zeros, and x/3*3 is not always x in f32)
        \* counts as 0 on the other side
        annual == (DOMAIN b.out.flat \ StepPaths(b)) \cup (DOMAIN e.out.flat \ StepPaths(e))
        v0(x, p) == IF HasP(x, p) THEN V(x, p) ELSE 0
        n == e.N
    IN (IF (IsPerm(e) /\ PermInputOk(b, e)) \/ (IsSub(e) /\ SubInputOk(b, e)) THEN {} ELSE {"harness:transform"})
       \cup {"annual_changes:" \o p : p \in {p \in annual \ Ratios : ~EqN(e, v0(e, p), v0(b, p), 2 + n \div 4)}}
       \cup {"annual_changes:" \o p : p \in {p \in Ratios : ~RatioEq(e, V(e, p), V(b, p))}}
       \cup (IF IsPerm(e)
             THEN {"step_vector:" \o k : k \in {k \in TKeys(b) \cup FKeys(b) : \E t \in 1..n : ~HasP(e, T(k, t)) \/ ~EqN(e, V(e, T(k, t)), V(b, T(k, e.run.perm[t])), 2)}}
             ELSE LET m == e.run.sub IN
                  {"step_vector:" \o k : k \in {k \in TKeys(b) : \E t \in 1..b.N : \E j \in 1..m :
                        ~HasP(e, T(k, (t - 1) * m + j)) \/ Abs(m * V(e, T(k, (t - 1) * m + j)) - V(b, T(k, t))) > (m + 2) * TolE(e)}}
                  \cup {"step_vector:" \o k : k \in {k \in FKeys(b) : \E t \in 1..b.N : \E j \in 1..m :
                        ~HasP(e, T(k, (t - 1) * m + j)) \/ Abs(V(e, T(k, (t - 1) * m + j)) - V(b, T(k, t))) > 60}})

Init == l = 1 /\ nbad = 0 /\ base = <<>>
Next ==
  /\ l <= Len(Rec)
  /\ LET e == Rec[l]
         bad == Judge(e)
     IN /\ (bad # {} => PrintT(<<"VERDICT", ToJson([prop |-> "C09", case |-> e.case, tag |-> e.tag, clauses |-> bad])>>))
        /\ nbad' = nbad + (IF bad = {} THEN 0 ELSE 1)
        /\ base' = IF e.tag = "base" THEN e ELSE base
  /\ l' = l + 1
Spec == Init /\ [][Next]_vars
Accepted ==
  LET n == TLCGet("stats").diameter - 1 IN
  IF n = Len(Rec) THEN PrintT(<<"TRACE-ACCEPTED", n>>)
  ELSE PrintT(<<"TRACE-REJECTED", n, Len(Rec)>>) /\ FALSE
=============================================================================
