----------------------------- MODULE Trace_C10 -----------------------------
(***************************************************************************)
(* C10 on the real library.  A group of events (same case) starts with the *)
(* evaluation of a base file; every further event of the group is the      *)
(* evaluation of a rewriting of that file (a file reached by MC_C10, text  *)
(* written by the harness), or a repetition of an evaluation (each call    *)
(* iterates its hash sets in a fresh order; the orders taken are recorded  *)
(* by the hooks), or the same evaluation made by another process (CLI).    *)
(* All must report the outcome and, within the floating point tolerance,   *)
(* every field of the first event.                                         *)
(***************************************************************************)
EXTENDS TraceKit

VARIABLES l, nbad, first
vars == <<l, nbad, first>>

NewGroup(e) == first = <<>> \/ first.case # e.case

Judge(e) ==
  IF NewGroup(e) THEN {}
  ELSE IF ~OK(first) THEN
       (IF OK(e) \/ e.out.err # first.out.err THEN {"outcome_differs:" \o (IF OK(e) THEN "Ok" ELSE e.out.err) \o "/" \o first.out.err} ELSE {})
  ELSE IF ~OK(e) THEN {"outcome_differs:" \o e.out.err \o "/Ok"}
  ELSE (IF DOMAIN e.out.flat = DOMAIN first.out.flat THEN {} ELSE {"fields_differ"})
       \* the metadata the file declares (key / value pairs) is part of what is read from it
       \cup (IF "meta" \in DOMAIN e.out /\ "meta" \in DOMAIN first.out /\ SeqSet(e.out.meta) # SeqSet(first.out.meta) THEN {"metadata_differs"} ELSE {})
       \cup {"result_differs:" \o p : p \in {p \in (DOMAIN first.out.flat \ Ratios) : HasP(e, p) /\ ~EqN(e, V(e, p), V(first, p), 2)}}
       \cup {"result_differs:" \o p : p \in {p \in Ratios : HasP(e, p) /\ ~RatioEq(e, V(e, p), V(first, p))}}

Init == l = 1 /\ nbad = 0 /\ first = <<>>
Next ==
  /\ l <= Len(Rec)
  /\ LET e == Rec[l]
         bad == IF e.ev = "Eval" \/ e.ev = "CliEval" THEN Judge(e) ELSE {}
     IN /\ (bad # {} => PrintT(<<"VERDICT", ToJson([prop |-> "C10", case |-> e.case, tag |-> e.tag, clauses |-> bad])>>))
        /\ ((e.ev = "Eval" /\ "carriers" \in DOMAIN e) =>
               PrintT(<<"NOTE", ToJson([case |-> e.case, order |-> <<e.idsched, e.carriers>>])>>))
        /\ nbad' = nbad + (IF bad = {} THEN 0 ELSE 1)
        /\ first' = IF (e.ev = "Eval" \/ e.ev = "CliEval") /\ NewGroup(e) THEN e ELSE first
  /\ l' = l + 1
Spec == Init /\ [][Next]_vars
Accepted ==
  LET n == TLCGet("stats").diameter - 1 IN
  IF n = Len(Rec) THEN PrintT(<<"TRACE-ACCEPTED", n>>)
  ELSE PrintT(<<"TRACE-REJECTED", n, Len(Rec)>>) /\ FALSE
=============================================================================
