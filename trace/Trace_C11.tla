----------------------------- MODULE Trace_C11 -----------------------------
(***************************************************************************)
(* C11: Session transforms  Scale(c)  (every energy value times c > 0) and *)
(* SetArea(c * A) on histories  Evaluate(base) ; Transform ; Evaluate.     *)
(* The harness logs the results of a scaled run in units of c (a unit      *)
(* choice stated in the event: run.scale), so homogeneity of degree 1 is   *)
(* plain equality of the logged integers:                                  *)
(*   every energy / weighted energy / emission path equal to the base,     *)
(*   RER values, f_match and the DHW renewable fraction (value or error    *)
(*   class) unchanged;                                                     *)
(*   area * c divides balance_m2 by c and changes nothing else.            *)
(* The transformed input is checked first (binding of the transform).      *)
(***************************************************************************)
EXTENDS TraceKit

VARIABLES l, nbad, base
vars == <<l, nbad, base>>

IsScale(e) == Has_(e.run, "scale")
IsArea(e) == e.tag # "base" /\ ~IsScale(e)
FKeys(e) == SeqSet(e.out.fkeys)
FPaths(e) == {T(k, t) : k \in FKeys(e), t \in StepsOf(e)}
M2Paths(e) == {P2("m2", k) : k \in SeqSet(e.out.m2keys)}

\* scaled input: c = n/d, logged values in 10^-q kWh of their own event
ScaleInputOk(b, e) ==
  LET n == e.run.scale[1]  d == e.run.scale[2] IN
  /\ Len(e.comps) = Len(b.comps) /\ e.N = b.N
  /\ \A i \in 1..Len(e.comps) : \A t \in 1..e.N :
       LET vb == b.comps[i].v[t]  ve == e.comps[i].v[t] IN
       \* ve / 10^qe = (n/d) * vb / 10^qb  up to the rounding of both logs; compared without products
       \* that could leave 32 bits: only small cases are compared exactly
       (Abs(vb) > 100000 \/ Abs(ve) > 100000 \/ n > 2000 \/ d > 2000)
       \/ Abs(d * ve * Pow10(2 - e.q) - n * vb * Pow10(2 - b.q)) <= (n + d) * 2

\* a run scaled BEFORE normalisation ("pre"): the normalisation appends the shared auxiliaries in an order of its own,
\* so the two lists are compared per tag tuple (kind, id, service, carrier, source) and step, on the sums
TagOf(x) == <<x.kind, x.id, x.srv, x.cr, x.src>>
ScaleInputOkBag(b, e) ==
  LET n == e.run.scale[1]  d == e.run.scale[2]
      tags(C) == {TagOf(C[i]) : i \in 1..Len(C)}
      sumOf(C, g, t) == ISumSet(LAMBDA i : C[i].v[t], {i \in 1..Len(C) : TagOf(C[i]) = g})
      cnt(C, g) == Cardinality({i \in 1..Len(C) : TagOf(C[i]) = g})
  IN /\ Len(e.comps) = Len(b.comps) /\ e.N = b.N /\ tags(e.comps) = tags(b.comps)
     /\ \A g \in tags(b.comps) : \A t \in 1..e.N :
          LET vb == sumOf(b.comps, g, t)  ve == sumOf(e.comps, g, t) IN
          (Abs(vb) > 100000 \/ Abs(ve) > 100000 \/ n > 2000 \/ d > 2000)
          \/ Abs(d * ve * Pow10(2 - e.q) - n * vb * Pow10(2 - b.q)) <= (n + d) * 2 * (cnt(b.comps, g) + 1)
IsPre(e) == "pre" \in DOMAIN e.run /\ e.run.pre

V0(e, p) == IF HasP(e, p) THEN V(e, p) ELSE 0

AcsSame(b, e) ==
  IF ~b.out.acs.ok \/ ~e.out.acs.ok THEN b.out.acs.ok = e.out.acs.ok /\ (b.out.acs.ok \/ b.out.acs.err = e.out.acs.err)
  ELSE b.out.acs.nonfinite \/ e.out.acs.nonfinite \/ Abs(b.out.acs.v - e.out.acs.v) <= 200 + (Abs(b.out.acs.v) \div 5000)   \* (a fraction far above 1 - demand
                                                     \* inconsistent with the supply - carries the f32 noise of its size)

Judge(e) ==
  IF e.tag = "base" THEN {}
  ELSE IF base = <<>> \/ ~OK(base) THEN {}
  ELSE IF ~OK(e) THEN {"outcome_changes"}
  ELSE
    LET b == base
        ok(c, name) == IF c THEN {} ELSE {name}
    IN IF IsScale(e) THEN
         \* a path present on one side only (the by-carrier maps omit exact zeros) counts as 0 on the other
         LET energy == ((DOMAIN b.out.flat \cup DOMAIN e.out.flat) \ (Ratios \cup FPaths(b) \cup {"k_exp", "arearef"})) IN
         ok(IF IsPre(e) THEN ScaleInputOkBag(b, e) ELSE ScaleInputOk(b, e), "harness:transform")
         \cup {"not_linear:" \o p : p \in {p \in energy : ~EqN(e, V0(e, p), V0(b, p), 2)}}
         \cup {"ratio_changes_with_scale:" \o p : p \in {p \in Ratios : ~RatioEq(e, V(e, p), V(b, p))}}
         \cup {"f_match_changes_with_scale:" \o p : p \in {p \in FPaths(b) : HasP(e, p) /\ Abs(V(e, p) - V(b, p)) > 60}}
         \cup ok(AcsSame(b, e), "dhw_fraction_changes_with_scale")
       ELSE
         \* area multiplied by c = run.areamul: m2 * c = base m2; nothing else moves
         LET n == e.run.areamul[1]  d == e.run.areamul[2]
             same == DOMAIN b.out.flat \ (M2Paths(b) \cup Ratios \cup {"arearef"})
             dp == e.pm - b.pm
             lhs(p) == IF dp >= 0 THEN V(e, p) * n ELSE V(e, p) * n * Pow10(-dp)
             rhs(p) == IF dp >= 0 THEN V(b, p) * d * Pow10(dp) ELSE V(b, p) * d
             tol == (IF dp >= 0 THEN Tol(e.magm) * n + Tol(b.magm) * d * Pow10(dp) ELSE Tol(e.magm) * n * Pow10(-dp) + Tol(b.magm) * d) + n + d
         IN ok(DOMAIN e.out.flat = DOMAIN b.out.flat, "fields_change_with_area")
            \cup {"moves_with_area:" \o p : p \in {p \in same : HasP(e, p) /\ ~EqN(e, V(e, p), V(b, p), 2)}}
            \cup {"moves_with_area:" \o p : p \in {p \in Ratios : ~RatioEq(e, V(e, p), V(b, p))}}
            \cup {"m2_not_inverse_in_area:" \o p : p \in {p \in M2Paths(b) : HasP(e, p) /\ Abs(lhs(p) - rhs(p)) > tol}}
            \cup ok(AcsSame(b, e), "dhw_fraction_changes_with_area")

Init == l = 1 /\ nbad = 0 /\ base = <<>>
Next ==
  /\ l <= Len(Rec)
  /\ LET e == Rec[l]
         bad == Judge(e)
     IN /\ (bad # {} => PrintT(<<"VERDICT", ToJson([prop |-> "C11", case |-> e.case, tag |-> e.tag, clauses |-> bad])>>))
        /\ nbad' = nbad + (IF bad = {} THEN 0 ELSE 1)
        /\ base' = IF e.tag = "base" THEN e ELSE base
  /\ l' = l + 1
Spec == Init /\ [][Next]_vars
Accepted ==
  LET n == TLCGet("stats").diameter - 1 IN
  IF n = Len(Rec) THEN PrintT(<<"TRACE-ACCEPTED", n>>)
  ELSE PrintT(<<"TRACE-REJECTED", n, Len(Rec)>>) /\ FALSE
=============================================================================
