----------------------------- MODULE Trace_C12 -----------------------------
(***************************************************************************)
(* C12, abstract specification P_C12 on the ELECTRICIDAD balance of a      *)
(* two-evaluation history (load matching off = tag "lm0", on = "lm1"):     *)
(*   - cogenerated electricity is used at a step only if the on-site       *)
(*     production of that step is fully allocated: used_chp > 0 =>         *)
(*     PV < use and used_pv = f * PV; used_pv + used_chp <= use            *)
(*   - without load matching f = 1 at every step                           *)
(*   - with it f = (x + 1/x - 1)/(x + 1/x), x = production / use           *)
(*     (1 when either is zero), 1/2 <= f <= 1                              *)
(*   - load matching never increases the production used on site nor       *)
(*     decreases the grid delivery, step by step.                          *)
(* Any ratio production/use is accepted on traces (the exact lattice of    *)
(* MC_C02 only has ratios with small denominators).                        *)
(***************************************************************************)
EXTENDS TraceKit

VARIABLES l, nbad, off
vars == <<l, nbad, off>>

EL == "ELECTRICIDAD"
X(e, p, t) == V(e, T(Cr(EL, p), t))
HasSrc(e, j) == j \in SrcsOf(e, EL)
SrcT(e, p, j, t) == IF HasSrc(e, j) THEN V(e, T(Cr(EL, P2(p, j)), t)) ELSE 0

\* formula (32) for logged production p and use u (unit 10^-p kWh), result in millionths
FExact(p, u) ==
  IF p <= 0 \/ u <= 0 THEN 1000000
  ELSE LET dv == 1 + (IMax(p, u) \div 20000)
           a == p \div dv  b == u \div dv
       IN IF a = 0 \/ b = 0 THEN 1000000
          ELSE Scaled(Norm(a * a + b * b - a * b, a * a + b * b), 6)
\* tolerance on f: the logged p and u are rounded to one unit each, and |x f'(x)| < 1/3
FTol(p, u) == (IF IMax(p, u) < 20000 THEN 60 ELSE 250) + (200000 \div p) + (200000 \div u)

StepClauses(e, t) ==
  LET pr == X(e, "prod.t", t)  u == X(e, "used.epus_t", t)  f == X(e, "f_match", t)
      pv == SrcT(e, "prod.by_src_t", "EL_INSITU", t)
      upv == SrcT(e, "prod.epus_by_src_t", "EL_INSITU", t)
      uchp == SrcT(e, "prod.epus_by_src_t", "EL_COGEN", t)
      tol == TolE(e)
      ok(c, name) == IF c THEN {} ELSE {name}
  IN ok(uchp <= tol \/ (pv <= u + tol /\ Abs(upv - MulMillionth(pv, f)) <= 2 * tol), "cogen_before_onsite")
     \cup ok(upv + uchp <= u + 2 * tol, "allocated_gt_use")
     \cup ok(upv <= pv + tol /\ uchp <= SrcT(e, "prod.by_src_t", "EL_COGEN", t) + tol, "allocated_gt_source")
     \cup ok(f >= 500000 - 60 /\ f <= 1000000 + 60, "f_out_of_range")
     \cup (IF e.lm THEN ok(IF pr <= 0 \/ u <= 0 THEN Abs(f - 1000000) <= 60 + (600000 \div IMax(IMax(pr, u), 1))
                                     ELSE Abs(f - FExact(pr, u)) <= FTol(pr, u), "f_formula")
           ELSE ok(f = 1000000, "f_not_1_without_lm"))
     \* produced energy used on site = f * min(use, production)
     \cup ok(Abs(X(e, "prod.epus_t", t) - MulMillionth(IMin(pr, u), f)) <= 2 * tol, "used_not_f_min")

PairClauses(e, t) ==
  IF off = <<>> \/ ~OK(off) THEN {}
  ELSE (IF X(e, "prod.epus_t", t) <= X(off, "prod.epus_t", t) + TolE(e) THEN {} ELSE {"lm_increases_self_use"})
       \cup (IF X(e, "del.grid_t", t) >= X(off, "del.grid_t", t) - TolE(e) THEN {} ELSE {"lm_decreases_grid_delivery"})

Judge(e) ==
  IF ~OK(e) THEN (IF e.tag = "lm1" /\ off # <<>> /\ OK(off) THEN {"outcome_changes_with_lm"} ELSE {})
  ELSE IF EL \notin Crs(e) THEN {}
  ELSE UNION {StepClauses(e, t) \cup (IF e.tag = "lm1" THEN PairClauses(e, t) ELSE {}) : t \in StepsOf(e)}

\* non-trivial: some step where both sources produce and 0 < PV < use
Nontrivial(e) ==
  OK(e) /\ EL \in Crs(e) /\ HasSrc(e, "EL_INSITU") /\ HasSrc(e, "EL_COGEN")
  /\ \E t \in StepsOf(e) : LET pv == SrcT(e, "prod.by_src_t", "EL_INSITU", t) IN
        pv > 0 /\ pv < X(e, "used.epus_t", t) /\ SrcT(e, "prod.by_src_t", "EL_COGEN", t) > 0

Init == l = 1 /\ nbad = 0 /\ off = <<>>
Next ==
  /\ l <= Len(Rec)
  /\ LET e == Rec[l]
         bad == Judge(e)
     IN /\ (bad # {} => PrintT(<<"VERDICT", ToJson([prop |-> "C12", case |-> e.case, tag |-> e.tag, clauses |-> bad])>>))
        /\ (Nontrivial(e) => PrintT(<<"NOTE", ToJson([nontrivial |-> e.case])>>))
        /\ nbad' = nbad + (IF bad = {} THEN 0 ELSE 1)
        /\ off' = IF e.tag = "lm0" THEN e ELSE off
  /\ l' = l + 1
Spec == Init /\ [][Next]_vars
Accepted ==
  LET n == TLCGet("stats").diameter - 1 IN
  IF n = Len(Rec) THEN PrintT(<<"TRACE-ACCEPTED", n>>)
  ELSE PrintT(<<"TRACE-REJECTED", n, Len(Rec)>>) /\ FALSE
=============================================================================
