----------------------------- MODULE Trace_C13 -----------------------------
(***************************************************************************)
(* C13 on every recorded evaluation with regulatory factors, non-negative  *)
(* inputs and k_exp = 0:                                                   *)
(*    rer = ren / (ren + nren) of the reported step-B energy,              *)
(*    tot above rounding noise  =>  0 <= rer <= 1,                         *)
(*    nothing weighted at all   =>  rer = 0,                               *)
(*    0 <= rer_onst <= rer_nrb <= rer   (nested perimeters).               *)
(* Ratios are compared with the ratio tolerance of TraceKit (it widens as  *)
(* the total approaches the rounding noise, below which nothing is         *)
(* claimed - the property's quantifier says "above rounding noise").       *)
(***************************************************************************)
EXTENDS TraceKit

VARIABLES l, nbad
vars == <<l, nbad>>

RTol(e) == LET t == TotS(e) IN 2 + ((2 * TolE(e) * 10000) \div t) * 100

Judge(e) ==
  IF ~OK(e) THEN {}
  ELSE LET ren == V(e, "bal.we.b.ren")  nren == V(e, "bal.we.b.nren")  tot == ren + nren
           rer == V(e, "rer")  nrb == V(e, "rer_nrb")  onst == V(e, "rer_onst")
           ok(c, name) == IF c THEN {} ELSE {name}
       IN IF tot <= 4 * TolE(e) THEN
            \* at or below the noise: only the exact-zero case is claimed
            ok(~(\A x \in {"ren", "nren"} : V(e, P2("bal.we.del", x)) = 0 /\ V(e, P2("bal.we.exp", x)) = 0) \/ rer = 0, "rer_not_0_for_zero_total")
          ELSE
            LET t == RTol(e) IN
            ok(Abs(rer) <= 2000000 /\ Abs(MulMillionth(tot, rer) - ren) <= 3 * TolE(e) + 2, "rer_not_ren_over_tot")
            \cup ok(rer >= -t /\ rer <= 1000000 + t, "rer_outside_0_1")
            \cup ok(onst >= -t, "rer_onst_negative")
            \cup ok(onst <= nrb + 2 * t, "rer_onst_gt_rer_nrb")
            \cup ok(nrb <= rer + 2 * t, "rer_nrb_gt_rer")

Init == l = 1 /\ nbad = 0
Next ==
  /\ l <= Len(Rec)
  /\ LET e == Rec[l]
         bad == Judge(e)
     IN /\ (bad # {} => PrintT(<<"VERDICT", ToJson([prop |-> "C13", case |-> e.case, tag |-> e.tag, clauses |-> bad])>>))
        /\ nbad' = nbad + (IF bad = {} THEN 0 ELSE 1)
  /\ l' = l + 1
Spec == Init /\ [][Next]_vars
Accepted ==
  LET n == TLCGet("stats").diameter - 1 IN
  IF n = Len(Rec) THEN PrintT(<<"TRACE-ACCEPTED", n>>)
  ELSE PrintT(<<"TRACE-REJECTED", n, Len(Rec)>>) /\ FALSE
=============================================================================
