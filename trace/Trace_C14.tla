----------------------------- MODULE Trace_C14 -----------------------------
(***************************************************************************)
(* C14: history  Evaluate(building) ; AddPv(delta) ; Evaluate(building +   *)
(* delta) at the same k_exp and load-matching mode (tags "b..." then       *)
(* "p...").  Under a regulatory factor set the second evaluation must not  *)
(* have more non-renewable primary energy, more CO2 (step A and step B)    *)
(* or more grid-delivered energy than the first, and with k_exp = 0 its    *)
(* RER must not be lower.  The trace specification first checks that the   *)
(* second input really is the first plus a non-negative on-site            *)
(* electricity production (binding of the transform).                      *)
(***************************************************************************)
EXTENDS TraceKit

VARIABLES l, nbad, prev
vars == <<l, nbad, prev>>

IsB(e) == e.run.role = "b"
IsP(e) == e.run.role = "p"

\* the transformed input is the base input plus one EL_INSITU production component >= 0
TransformOk(b, e) ==
  /\ Len(e.comps) = Len(b.comps) + 1
  /\ \E i \in 1..Len(e.comps) :
        /\ e.comps[i].kind = "PROD" /\ e.comps[i].src = "EL_INSITU"
        /\ \A t \in DOMAIN e.comps[i].v : e.comps[i].v[t] >= 0
        /\ [j \in 1..Len(b.comps) |-> IF j < i THEN e.comps[j] ELSE e.comps[j + 1]] = b.comps
  /\ e.kexp = b.kexp /\ e.lm = b.lm /\ e.fac = b.fac

Judge(e) ==
  IF IsB(e) THEN {}
  ELSE IF prev = <<>> \/ ~IsB(prev) \/ prev.case # e.case THEN {"harness:unpaired"}
  ELSE IF ~OK(prev) THEN {}
  ELSE IF ~OK(e) THEN {"outcome_changes_with_pv"}
  ELSE LET b == prev
           tol == 2 * TolE(e)
           ok(c, name) == IF c THEN {} ELSE {name}
           up(path) == V(e, path) > V(b, path) + tol
       IN ok(TransformOk(b, e), "harness:transform")
          \cup ok(~up("bal.we.a.nren"), "nren_A_increases")
          \cup ok(~up("bal.we.b.nren"), "nren_B_increases")
          \cup ok(~up("bal.we.a.co2"), "co2_A_increases")
          \cup ok(~up("bal.we.b.co2"), "co2_B_increases")
          \cup ok(~up("bal.del.grid"), "grid_delivery_increases")
          \cup (IF e.kexp[1] # 0 \/ TotS(e) <= 4 * TolE(e) \/ TotS(b) <= 4 * TolE(b) THEN {}
                ELSE LET t1 == 2 + ((2 * TolE(e) * 10000) \div TotS(e)) * 100
                         t2 == 2 + ((2 * TolE(b) * 10000) \div TotS(b)) * 100
                     IN ok(V(e, "rer") >= V(b, "rer") - (t1 + t2), "rer_decreases"))

Init == l = 1 /\ nbad = 0 /\ prev = <<>>
Next ==
  /\ l <= Len(Rec)
  /\ LET e == Rec[l]
         bad == Judge(e)
     IN /\ (bad # {} => PrintT(<<"VERDICT", ToJson([prop |-> "C14", case |-> e.case, tag |-> e.tag, clauses |-> bad])>>))
        /\ nbad' = nbad + (IF bad = {} THEN 0 ELSE 1)
        /\ prev' = e
  /\ l' = l + 1
Spec == Init /\ [][Next]_vars
Accepted ==
  LET n == TLCGet("stats").diameter - 1 IN
  IF n = Len(Rec) THEN PrintT(<<"TRACE-ACCEPTED", n>>)
  ELSE PrintT(<<"TRACE-REJECTED", n, Len(Rec)>>) /\ FALSE
=============================================================================
