----------------------------- MODULE Trace_C15 -----------------------------
(***************************************************************************)
(* C15 on the real library: every Eval event carries what                  *)
(* cte::fraccion_renovable_acs_nrb returned for the evaluated building     *)
(* (value in millionths or error class) and the keys of misc after         *)
(* cte::incorpora_demanda_renovable_acs_nrb.  For exact lattice inputs TLC *)
(* recomputes Acs!AcsFraction from the logged components and factors and   *)
(* compares; on every event: value or error (never both, never a panic),   *)
(* misc has exactly the matching key; and over a history (tags base / k /  *)
(* scale / nepb-free ...) the value does not move.                         *)
(***************************************************************************)
EXTENDS TraceKit, Acs

VARIABLES l, nbad, base
vars == <<l, nbad, base>>

KeyVal == "fraccion_renovable_demanda_acs_nrb"
KeyErr == "error_acs"
MiscClauses(e) ==
  LET ks == SeqSet(e.out.misc) IN
  IF e.out.acs.ok THEN (IF KeyVal \in ks /\ KeyErr \notin ks THEN {} ELSE {"misc_keys_for_value"})
  ELSE (IF KeyErr \in ks /\ KeyVal \notin ks THEN {} ELSE {"misc_keys_for_error"})

Recompute(e) ==
  LET r == SpecResult(e)
      a == AcsFraction(EvComps(e), FacOf(e), r, LowScopOf(EvComps(e)))
      o == e.out.acs
  IN IF ~a.ok THEN (IF ~o.ok /\ o.err = a.err THEN {} ELSE {"number_where_error_expected:" \o a.class})
     ELSE IF ~o.ok THEN {"error_where_number_expected:" \o o.err}
     ELSE IF o.nonfinite THEN {"dhw_fraction_not_finite_where_specification_has_a_value"}
     ELSE IF Abs(o.v - Scaled(a.v, 6)) <= 200 + (Abs(o.v) \div 5000) THEN {} ELSE {"dhw_fraction_differs_from_specification"}

\* binding of the demand: what the evaluation used as demand of a service is the step-wise sum of the DEMANDA lines
\* the case declares for it, whatever other services' demands were declared before (events that carry decl_needs)
DemandBound(e) ==
  IF "decl_needs" \notin DOMAIN e \/ e.q # 0 THEN {}
  ELSE LET DN == e.decl_needs
           srvs == {DN[i].srv : i \in 1..Len(DN)}
           declared(s, t) == ISumSet(LAMBDA i : DN[i].v[t], {i \in 1..Len(DN) : DN[i].srv = s})
           used(s) == {i \in 1..Len(e.comps) : e.comps[i].kind = "NEED" /\ e.comps[i].srv = s}
       IN IF \A s \in srvs : used(s) # {} /\ \A i \in used(s) : \A t \in 1..e.N : e.comps[i].v[t] = declared(s, t)
          THEN {} ELSE {"demand_evaluated_is_not_the_declared_one"}

Same(e, b) ==
  IF ~b.out.acs.ok \/ ~e.out.acs.ok THEN b.out.acs.ok = e.out.acs.ok /\ (b.out.acs.ok \/ b.out.acs.err = e.out.acs.err)
  \* (a value that is not finite - 0/0 for a degenerate, inconsistent input - is outside the claim)
  ELSE b.out.acs.nonfinite \/ e.out.acs.nonfinite \/ Abs(b.out.acs.v - e.out.acs.v) <= 200 + (Abs(b.out.acs.v) \div 5000)

Judge(e) ==
  IF ~OK(e) THEN {}
  ELSE (IF e.out.acs.ok \/ e.out.acs.err \in {"WrongInput", "MissingFactor", "ParseError"} THEN {} ELSE {"dhw_indicator_" \o e.out.acs.err})
       \cup MiscClauses(e) \cup DemandBound(e)
       \cup (IF Lattice(e) /\ ~e.out.tagged /\ SpecOutcome(e) = "Ok" THEN Recompute(e) ELSE {})
       \cup (IF e.tag # "base" /\ base # <<>> /\ base.case = e.case /\ OK(base) /\ ~Same(e, base) THEN {"dhw_fraction_moves:" \o e.tag} ELSE {})

Nontrivial(e) == OK(e) /\ e.out.acs.ok /\ ~e.out.acs.nonfinite /\ e.out.acs.v > 0 /\ e.out.acs.v < 1000000

Init == l = 1 /\ nbad = 0 /\ base = <<>>
Next ==
  /\ l <= Len(Rec)
  /\ LET e == Rec[l]
         bad == Judge(e)
     IN /\ (bad # {} => PrintT(<<"VERDICT", ToJson([prop |-> "C15", case |-> e.case, tag |-> e.tag, clauses |-> bad])>>))
        /\ (Nontrivial(e) => PrintT(<<"NOTE", ToJson([nontrivial |-> e.case])>>))
        /\ nbad' = nbad + (IF bad = {} THEN 0 ELSE 1)
        /\ base' = IF e.tag = "base" THEN e ELSE base
  /\ l' = l + 1
Spec == Init /\ [][Next]_vars
Accepted ==
  LET n == TLCGet("stats").diameter - 1 IN
  IF n = Len(Rec) THEN PrintT(<<"TRACE-ACCEPTED", n>>)
  ELSE PrintT(<<"TRACE-REJECTED", n, Len(Rec)>>) /\ FALSE
=============================================================================
