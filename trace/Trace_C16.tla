----------------------------- MODULE Trace_C16 -----------------------------
(***************************************************************************)
(* C16: terminal-state oracle.  A Fault event lists, for one text produced *)
(* by MC_C16 (or a valid shape, or an option atom), the outcome of every   *)
(* library entry point that was called on it (under catch_unwind); a       *)
(* FaultCli event is the way the real program ended on the same bytes.     *)
(* The specification only has the terminal states                          *)
(*     library:  Ok | ParseError | WrongInput | MissingFactor              *)
(*     program:  exit 0 | 1 | 64 | 65 | 73 | 74, error reported on stderr  *)
(* so anything else (Panic, signal, abort, timeout) is a violation.        *)
(***************************************************************************)
EXTENDS Grammar, Json, IOUtils, TLC
Rec == ndJsonDeserialize(IOEnv.TRACE)
VARIABLES l, nbad
vars == <<l, nbad>>

LibOutcomes == {"Ok", "ParseError", "WrongInput", "MissingFactor"}
ExitCodes == {"0", "1", "64", "65", "73", "74"}

Judge(e) ==
  IF e.ev = "Fault" THEN
     {"library_" \o e.stages[i].o \o "_in_" \o e.stages[i].s : i \in {i \in 1..Len(e.stages) : e.stages[i].o \notin LibOutcomes}}
  ELSE IF e.ev = "FaultCli" THEN
     (IF e.how \notin ExitCodes THEN {"program_ends_by_" \o e.how} ELSE {})
     \cup (IF e.how \in ExitCodes /\ e.how # "0" /\ e.stderr_empty THEN {"error_not_reported_on_stderr"} ELSE {})
  ELSE {}

\* Conformance of the parser to the token-level grammar (spec/Grammar.tla): reported as DRIFT only,
\* because C16 does not promise WHICH outcome a corrupted file gets
ParseStage(e) == LET I == {i \in 1..Len(e.stages) : e.stages[i].s = "parse"} IN IF I = {} THEN "none" ELSE e.stages[CHOOSE i \in I : TRUE].o
FParseStage(e) == LET I == {i \in 1..Len(e.stages) : e.stages[i].s = "parse-factors"} IN IF I = {} THEN "none" ELSE e.stages[CHOOSE i \in I : TRUE].o
Drift(e) ==
  IF e.ev # "Fault" THEN {}
  ELSE IF e.kind = "factors" THEN
       LET pc == FactorsParseClass(e.lines)  o == FParseStage(e) IN
       IF pc = "Unknown" \/ o \in {"none", "Panic"} THEN {}
       ELSE IF pc = "ParseError" /\ o # "ParseError" THEN {"factor_grammar_refuses_but_parser_returns_" \o o}
       ELSE IF pc = "Parsed" /\ o = "ParseError" THEN {"factor_grammar_accepts_but_parser_refuses"}
       ELSE {}
  ELSE IF e.kind # "comps" THEN {}
  ELSE LET pc == ParseClass(e.lines)  o == ParseStage(e) IN
       IF pc = "Unknown" \/ o \in {"none", "Panic"} THEN {}
       ELSE IF pc = "ParseError" /\ o # "ParseError" THEN {"grammar_refuses_but_parser_returns_" \o o}
       ELSE IF pc = "Parsed" /\ o = "ParseError" THEN {"grammar_accepts_but_parser_refuses"}
       ELSE {}

Init == l = 1 /\ nbad = 0
Next ==
  /\ l <= Len(Rec)
  /\ LET e == Rec[l]
         bad == Judge(e)
         dr == Drift(e)
     IN /\ (bad # {} => PrintT(<<"VERDICT", ToJson([prop |-> "C16", case |-> e.case, tag |-> e.tag, clauses |-> bad])>>))
        /\ (dr # {} => PrintT(<<"DRIFT", ToJson([prop |-> "C16", case |-> e.case, tag |-> e.tag, clauses |-> dr])>>))
        /\ (e.ev = "Fault" /\ e.kind = "comps" /\ ParseClass(e.lines) # "Unknown" => PrintT(<<"NOTE", ToJson([predicted |-> e.case])>>))
        /\ (e.ev = "Fault" /\ e.kind = "factors" /\ FactorsParseClass(e.lines) # "Unknown" => PrintT(<<"NOTE", ToJson([predicted |-> e.case])>>))
        /\ nbad' = nbad + (IF bad = {} THEN 0 ELSE 1)
  /\ l' = l + 1
Spec == Init /\ [][Next]_vars
Accepted ==
  LET n == TLCGet("stats").diameter - 1 IN
  IF n = Len(Rec) THEN PrintT(<<"TRACE-ACCEPTED", n>>)
  ELSE PrintT(<<"TRACE-REJECTED", n, Len(Rec)>>) /\ FALSE
=============================================================================
