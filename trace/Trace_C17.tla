----------------------------- MODULE Trace_C17 -----------------------------
(***************************************************************************)
(* C17: an Eval event with a doc field carries the three renderings of the *)
(* evaluated result as token streams (spec/Output.tla).  Judged here:      *)
(*  XML    accepted by the pushdown acceptor (for any comment / metadata   *)
(*         text), element counts = numbers of factors / components /       *)
(*         demands, kexp / AreaRef / Epm2 leaves = the values at their     *)
(*         printed precision;                                              *)
(*  plain  every printed number = the value of the path PlainTable gives   *)
(*         it, at its printed precision (scalars and all tables);          *)
(*  JSON   valid, re-readable, and the re-read result flattens to the      *)
(*         original (weighted triples up to their 3-decimal rounding);     *)
(*  runs   the second rendering of the same input (event tag r2) is token  *)
(*         for token the first (order and content of the tables stable).   *)
(***************************************************************************)
EXTENDS TraceKit, Output

VARIABLES l, nbad, r1
vars == <<l, nbad, r1>>

M2(e, k) == V(e, "m2." \o k)
HasM2(e, k) == HasP(e, "m2." \o k)
\* value (and its exponent) printed by a plain entry <<sec, key, field, P, d>>; <<>> = not in the table
PlainValue(e, en) ==
  LET sec == en[1]  key == en[2]  fld == en[3]  pm == e.pm
      \* a per-m2 value: in hundredths as the f32 of the result rounds to them (out.m2c, projection of the harness: the
      \* digits of the value formatted with two decimals) when the event carries it - the printed number is then compared
      \* to one hundredth, whatever the size of the building - else at the logging unit
      m(k) == IF "m2c" \in DOMAIN e.out /\ k \in DOMAIN e.out.m2c THEN <<e.out.m2c[k], 2, 0>>
              ELSE IF HasM2(e, k) THEN <<M2(e, k), pm, 0>> ELSE <<0, pm, 0>>
      trip(pre) == IF fld = "tot" THEN (IF HasM2(e, pre \o ".ren") THEN <<M2(e, pre \o ".ren") + M2(e, pre \o ".nren"), pm, 1>> ELSE <<0, pm, 1>>)
                   ELSE m(pre \o "." \o fld)
  IN CASE sec = "h1" /\ key = "k1" -> <<V(e, "arearef"), 3, 0>>
       [] sec = "h1" /\ key = "k2" -> <<V(e, "k_exp"), 6, 0>>
       [] sec = "h1" /\ key = "k3" -> trip("we.b")
       [] sec = "h1" /\ key = "k4" -> m("we.b.co2")
       [] sec = "h1" /\ key = "k5" -> <<V(e, "rer"), 6, 0>>
       [] sec = "h1" /\ key = "k6" -> <<V(e, "rer_nrb"), 6, 0>>
       [] sec = "h2.k0" -> IF fld = "absent" THEN <<>> ELSE m("needs." \o key)
       [] sec = "h3" /\ key = "k1" -> <<M2(e, "used.epus") + M2(e, "used.nepus") + M2(e, "used.cgnus"), pm, 2>>
       [] sec = "h3" /\ key = "k2" -> m("used.epus")
       [] sec = "h3.t1" -> m("used.epus_by_srv." \o key)
       [] sec = "h3.t2" -> m("used.epus_by_cr." \o key)
       [] sec = "h3" /\ key = "k3" -> m("used.nepus")
       [] sec = "h3" /\ key = "k4" -> m("used.cgnus")
       [] sec = "h3" /\ key = "k5" -> m("prod.an")
       [] sec = "h3.t3" -> m("prod.by_cr." \o key)
       [] sec = "h3.t4" -> m("prod.by_src." \o key)
       [] sec = "h3.t5" -> m("prod.epus_by_src." \o key)
       [] sec = "h3" /\ key = "k6" -> m("del.an")
       [] sec = "h3.k6" /\ key = "d1" -> m("del.grid")
       [] sec = "h3.k6" /\ key = "d2" -> m("del.onst")
       [] sec = "h3" /\ key = "k7" -> m("exp.an")
       [] sec = "h3.k7" /\ key = "d1" -> m("exp.grid")
       [] sec = "h3.k7" /\ key = "d2" -> m("exp.nepus")
       [] sec = "h4" /\ key = "k1" -> trip("we.a")
       [] sec = "h4.t1" -> trip("we.a_by_srv." \o key)
       [] sec = "h4" /\ key = "k2" -> trip("we.b")
       [] sec = "h4.t2" -> trip("we.b_by_srv." \o key)
       [] OTHER -> <<>>

\* which table entries must exist: one per key of the corresponding map
TableKeys(e, sec) == {e.doc.plain[i][2] : i \in {i \in 1..Len(e.doc.plain) : e.doc.plain[i][1] = sec}}
Suffixes(e, pre) == {k \in SeqSet(e.out.m2keys) : \E x \in Carriers \cup Services \cup ProdSources : k = pre \o "." \o x}
KeysOfMap(e, pre) == {x \in Carriers \cup Services \cup ProdSources : (pre \o "." \o x) \in SeqSet(e.out.m2keys)}

PlainClauses(e) ==
  LET en(i) == e.doc.plain[i] IN
  {"plain_number_differs:" \o en(i)[1] \o "/" \o en(i)[2] \o "/" \o en(i)[3] :
       i \in {i \in 1..Len(e.doc.plain) :
                LET pv == PlainValue(e, en(i)) IN pv # <<>> /\ ~PrintedOk(en(i)[4], en(i)[5], pv[1], pv[2], pv[3])}}
  \cup (IF TableKeys(e, "h3.t1") = KeysOfMap(e, "used.epus_by_srv") /\ TableKeys(e, "h3.t2") = KeysOfMap(e, "used.epus_by_cr")
           /\ TableKeys(e, "h3.t3") = KeysOfMap(e, "prod.by_cr") /\ TableKeys(e, "h3.t4") = KeysOfMap(e, "prod.by_src")
           /\ TableKeys(e, "h3.t5") = KeysOfMap(e, "prod.epus_by_src")
           /\ TableKeys(e, "h4.t1") = {x \in Services : ("we.a_by_srv." \o x \o ".ren") \in SeqSet(e.out.m2keys)}
           /\ TableKeys(e, "h4.t2") = {x \in Services : ("we.b_by_srv." \o x \o ".ren") \in SeqSet(e.out.m2keys)}
        THEN {} ELSE {"plain_table_keys_differ"})
  \cup (IF \E i \in 1..Len(e.doc.plain) : en(i)[1] = "h1" /\ en(i)[2] = "k3" /\ en(i)[3] = "nren" THEN {} ELSE {"plain_headline_missing"})
  \cup (IF ~e.out.acs.ok \/ e.out.acs.nonfinite \/ AbsI(e.out.acs.v) >= 2000000000 THEN {}   \* (clamped: outside the logging range)
        ELSE IF \E i \in 1..Len(e.doc.plain) : en(i)[1] = "h5" /\ en(i)[2] = "k1" /\ en(i)[3] # "absent" /\ AbsI(en(i)[4] - (e.out.acs.v \div 1000)) <= 2 THEN {}
        ELSE {"plain_dhw_fraction_differs"})

\* the records of the XML document (harness projection xmlrecs: element, texts of its children) against the
\* components of the evaluated building and the factors of the result: same tags, values at two (three) decimals
ElOf(k) == CASE k = "USED" -> "Consumo" [] k = "PROD" -> "Produccion" [] k = "AUX" -> "EAux" [] k = "OUT" -> "Salida" [] OTHER -> "Demanda"
HasF(rec, name) == name \in DOMAIN rec.f
Txt(rec, name) == IF HasF(rec, name) /\ "s" \in DOMAIN rec.f[name] THEN rec.f[name].s ELSE "?"
Num(rec, name) == IF HasF(rec, name) /\ "n" \in DOMAIN rec.f[name] THEN rec.f[name].n ELSE -987654
ValsOf(rec) == IF ~HasF(rec, "Valores") THEN <<>>
               ELSE IF "l" \in DOMAIN rec.f.Valores THEN rec.f.Valores.l
               ELSE IF "n" \in DOMAIN rec.f.Valores THEN <<rec.f.Valores.n>> ELSE <<>>
MatchComp(e, c, rec) ==
  /\ rec.el = ElOf(c.kind)
  /\ (c.kind # "NEED" => Num(rec, "Id") = c.id)
  /\ (c.kind = "USED" => Txt(rec, "Vector") = c.cr)
  /\ (c.kind \in {"USED", "AUX", "OUT", "NEED"} => Txt(rec, "Servicio") = c.srv)
  /\ (c.kind = "PROD" => Txt(rec, "Origen") = c.src)
  /\ Len(ValsOf(rec)) = Len(c.v) /\ HasF(rec, "Valores") /\ rec.f.Valores.d = 2
  /\ \A t \in 1..Len(c.v) : PrintedOk(ValsOf(rec)[t], 2, c.v[t], e.q, 0)
MatchFactor(f, rec) ==
  /\ rec.el = "Factor" /\ Txt(rec, "Vector") = f.cr /\ Txt(rec, "Origen") = f.src /\ Txt(rec, "Destino") = f.dest /\ Txt(rec, "Paso") = f.step
  /\ \A x \in {<<"ren", 1>>, <<"nren", 2>>, <<"co2", 3>>} :
        HasF(rec, x[1]) /\ "n" \in DOMAIN rec.f[x[1]] /\ rec.f[x[1]].d = 3 /\ AbsI(rec.f[x[1]].n - f.m[x[2]]) <= 1
XmlRecordClauses(e) ==
  IF ~Has_(e.doc, "xmlrecs") THEN {}
  ELSE LET recs == e.doc.xmlrecs IN
       (IF \A i \in 1..Len(e.comps) : \E j \in 1..Len(recs) : MatchComp(e, e.comps[i], recs[j]) THEN {} ELSE {"xml_component_not_stated"})
       \cup (IF \A i \in 1..Len(e.doc.facs) : \E j \in 1..Len(recs) : MatchFactor(e.doc.facs[i], recs[j]) THEN {} ELSE {"xml_factor_not_stated"})

XmlClauses(e) ==
  LET r == XmlAccept(e.doc.xml)
      leaf(path) == {r.leaves[i] : i \in {i \in 1..Len(r.leaves) : r.leaves[i][1] = path}}
      one(path, v, x, slack) == \E lf \in leaf(path) : PrintedOk(lf[2], lf[3], v, x, slack)
      ncomp(k) == Cardinality({i \in 1..Len(e.comps) : e.comps[i].kind = k})
  IN IF ~r.ok THEN {"xml_not_well_formed:" \o r.why}
     ELSE (IF one(<<"kexp", "BalanceEPB">>, V(e, "k_exp"), 6, 0) THEN {} ELSE {"xml_kexp"})
          \cup (IF one(<<"AreaRef", "BalanceEPB">>, V(e, "arearef"), 3, 0) THEN {} ELSE {"xml_arearef"})
          \cup (IF one(<<"tot", "Epm2", "BalanceEPB">>, M2(e, "we.b.ren") + M2(e, "we.b.nren"), e.pm, 1) THEN {} ELSE {"xml_epm2_tot"})
          \cup (IF one(<<"nren", "Epm2", "BalanceEPB">>, M2(e, "we.b.nren"), e.pm, 0) THEN {} ELSE {"xml_epm2_nren"})
          \cup (IF r.counts["Consumo"] = ncomp("USED") /\ r.counts["Produccion"] = ncomp("PROD") /\ r.counts["EAux"] = ncomp("AUX")
                   /\ r.counts["Salida"] = ncomp("OUT") /\ r.counts["Demanda"] = ncomp("NEED") THEN {} ELSE {"xml_component_elements"})
          \cup (IF ~e.doc.json.reread \/ r.counts["Factor"] = e.doc.json.nfac THEN {} ELSE {"xml_factor_elements"})
          \cup XmlRecordClauses(e)

\* two renderings of the same input: same entries in the same order; a printed number may differ by one
\* unit of its last digit plus a few f32 units in the last place of the value (2^-21 relative): the f32 sums
\* are accumulated in hash order, which differs between runs
Near(a, b) == AbsI(a - b) <= 1 + (AbsI(a) \div 2000000)
SamePlain(a, b) ==
  /\ Len(a) = Len(b)
  /\ \A i \in 1..Len(a) : a[i][1] = b[i][1] /\ a[i][2] = b[i][2] /\ a[i][3] = b[i][3] /\ a[i][5] = b[i][5] /\ Near(a[i][4], b[i][4])
SameXml(a, b) ==
  /\ Len(a) = Len(b)
  /\ \A i \in 1..Len(a) : a[i] = b[i] \/ (Len(a[i]) = 4 /\ Len(b[i]) = 4 /\ a[i][1] = b[i][1] /\ a[i][4] = b[i][4] /\ Near(a[i][3], b[i][3]))
JsonClauses(e) ==
  IF ~e.doc.json.valid THEN {"json_not_produced"}
  ELSE IF ~e.doc.json.reread THEN {"json_not_readable_back"}
  ELSE LET f2 == e.doc.json.flat
           \* weighted triples are serialised rounded to 3 decimals
           tol(p) == (Pow10(IMax(e.p, e.pm)) \div 2000) + 1
       IN (IF DOMAIN f2 = DOMAIN e.out.flat THEN {} ELSE {"json_fields_differ"})
          \cup {"json_value_differs:" \o p : p \in {p \in DOMAIN e.out.flat : p \in DOMAIN f2 /\ Abs(f2[p] - e.out.flat[p]) > tol(p)}}

Judge(e) ==
  IF ~OK(e) \/ ~Has_(e, "doc") THEN {}
  ELSE IF ~e.doc.ok THEN {"panic_while_rendering:" \o e.doc.stage}
  ELSE XmlClauses(e) \cup PlainClauses(e) \cup JsonClauses(e)
       \cup (IF e.tag = "r2" /\ r1 # <<>> /\ r1.case = e.case /\ OK(r1) /\ r1.doc.ok
             THEN (IF SamePlain(e.doc.plain, r1.doc.plain) THEN {} ELSE {"plain_report_varies_between_runs"})
                  \cup (IF SameXml(e.doc.xml, r1.doc.xml) THEN {} ELSE {"xml_varies_between_runs"})
             ELSE {})

\* documents written by the real program for the input of the last r1 event (cteepbd -F --xml --txt --json)
JudgeCli(e) ==
  IF e.exit # 0 THEN (IF r1 # <<>> /\ r1.case = e.case /\ OK(r1) THEN {"program_fails_where_library_succeeds"} ELSE {})
  ELSE (IF e.xml.present /\ XmlAccept(e.xml.toks).ok THEN {} ELSE {"cli_xml_not_well_formed"})
       \cup (IF e.json.present /\ e.json.reread THEN {} ELSE {"cli_json_not_readable_back"})
       \cup (IF ~e.plain.present THEN {"cli_txt_missing"}
             ELSE IF r1 # <<>> /\ r1.case = e.case /\ OK(r1) /\ r1.doc.ok /\ ~SamePlain(e.plain.entries, r1.doc.plain) THEN {"cli_report_differs_from_library_report"}
             ELSE {})

Init == l = 1 /\ nbad = 0 /\ r1 = <<>>
Next ==
  /\ l <= Len(Rec)
  /\ LET e == Rec[l]
         bad == IF e.ev = "Eval" THEN Judge(e) ELSE IF e.ev = "CliDocs" THEN JudgeCli(e) ELSE {}
     IN /\ (bad # {} => PrintT(<<"VERDICT", ToJson([prop |-> "C17", case |-> e.case, tag |-> e.tag, clauses |-> bad])>>))
        /\ nbad' = nbad + (IF bad = {} THEN 0 ELSE 1)
        /\ r1' = IF e.ev = "Eval" /\ e.tag = "r1" THEN e ELSE r1
  /\ l' = l + 1
Spec == Init /\ [][Next]_vars
Accepted ==
  LET n == TLCGet("stats").diameter - 1 IN
  IF n = Len(Rec) THEN PrintT(<<"TRACE-ACCEPTED", n>>)
  ELSE PrintT(<<"TRACE-REJECTED", n, Len(Rec)>>) /\ FALSE
=============================================================================
