----------------------------- MODULE Trace_C18 -----------------------------
(***************************************************************************)
(* C18: a RoundTrip event records a component set and a factor set written *)
(* with the tool's own text format (Display) and read back:                *)
(*   - every printed line is TextFormat!PrintLine of one component (tags,  *)
(*     id, values with two decimals = the value rounded), as a bag;        *)
(*   - the re-read set has the same metadata, the same components (tags,   *)
(*     ids, comments; values within half a printed unit) and the same      *)
(*     demands; auxiliaries are re-read without service and re-assigned by *)
(*     the normalisation, so their per-system sums are compared;           *)
(*   - the re-read factor list is the original at three decimals, with the *)
(*     same comments and metadata.                                         *)
(* The Eval events that follow ("orig", then "reload" = evaluation of the  *)
(* re-read sets; or the real program run on the files it saved with --oc   *)
(* --of) must agree up to the printed precision.                           *)
(***************************************************************************)
EXTENDS TraceKit, TextFormat

VARIABLES l, nbad, orig
vars == <<l, nbad, orig>>

RemoveAt(s, j) == SubSeq(s, 1, j - 1) \o SubSeq(s, j + 1, Len(s))
\* a printed line (fields of the harness lexer) is the print of component c (values at 10^-4)
LineIs(ln, c) ==
  LET pl == PrintLine(c)  f == ln.f IN
  /\ Len(f) = Len(pl)
  /\ ln.cm = c.cm
  /\ \A k \in 1..Len(f) :
       IF pl[k][1] = "s" THEN f[k][1] = "s" /\ f[k][2] = pl[k][2]
       ELSE IF k = 1 /\ c.kind # "NEED" THEN f[k][1] = "i" /\ f[k][2] = pl[k][2]         \* the system id
       ELSE \* a value printed with two decimals: P / 100 = value rounded
            /\ f[k][1] = "n" /\ f[k][3] = 2
            /\ Abs(f[k][2] * 100 - pl[k][2]) <= 51
RECURSIVE LinesMatch(_, _)
LinesMatch(lines, comps) ==
  IF comps = <<>> THEN lines = <<>>
  ELSE LET js == {j \in 1..Len(lines) : LineIs(lines[j], Head(comps))} IN
       js # {} /\ LinesMatch(RemoveAt(lines, CHOOSE j \in js : \A k \in js : j <= k), Tail(comps))

CloseC(a, b) ==
  /\ a.kind = b.kind /\ a.id = b.id /\ a.cr = b.cr /\ a.src = b.src /\ a.cm = b.cm
  /\ (a.kind = "AUX" \/ a.srv = b.srv)
  /\ Len(a.v) = Len(b.v) /\ \A t \in 1..Len(a.v) : Abs(a.v[t] - b.v[t]) <= 51
RECURSIVE BagCloseC(_, _)
BagCloseC(x, y) ==
  IF x = <<>> THEN y = <<>>
  ELSE LET js == {j \in 1..Len(y) : CloseC(Head(x), y[j])} IN
       js # {} /\ BagCloseC(Tail(x), RemoveAt(y, CHOOSE j \in js : \A k \in js : j <= k))

\* Same data up to the printed precision: component by component or - when rounding to two decimals makes
\* the re-normalisation add or drop a completion of one printed unit - per tag tuple (kind, id, carrier,
\* service, source, comment) with half a printed unit of slack per line
TagC(c) == <<c.kind, c.id, c.cr, c.srv, c.src, c.cm>>
SumTag(C, tg, t) == ISumSet(LAMBDA i : C[i].v[t], {i \in 1..Len(C) : TagC(C[i]) = tg})
SameDeclaration(x, y) ==
  \/ BagCloseC(x, y)
  \/ LET tags == {TagC(x[i]) : i \in 1..Len(x)} \cup {TagC(y[i]) : i \in 1..Len(y)}
         n == IF x = <<>> THEN 0 ELSE Len(x[1].v)
     IN \A tg \in tags : \A t \in 1..n : Abs(SumTag(x, tg, t) - SumTag(y, tg, t)) <= 51 * (Len(x) + 1)

NoAux(C) == SelectSeq(C, LAMBDA c : c.kind # "AUX")
AuxSum(C, id, t) == ISumSet(LAMBDA i : C[i].v[t], {i \in 1..Len(C) : C[i].kind = "AUX" /\ C[i].id = id})
AuxIdsOf(C) == {C[i].id : i \in {i \in 1..Len(C) : C[i].kind = "AUX"}}
SameFactors(a, b) ==
  /\ Len(a) = Len(b)
  /\ \A i \in 1..Len(a) : a[i].cr = b[i].cr /\ a[i].src = b[i].src /\ a[i].dest = b[i].dest /\ a[i].step = b[i].step
                          /\ \A k \in 1..3 : Abs(a[i].m[k] - b[i].m[k]) <= 1

JudgeRT(e) ==
  IF ~e.out.ok THEN {"panic_while_writing"}
  ELSE LET C == e.comps.orig  ok(c, name) == IF c THEN {} ELSE {name} IN
       ok(LinesMatch(e.comps.lines, C), "printed_lines_are_not_the_components")
       \cup (IF ~e.comps.re.ok THEN {"saved_components_not_readable:" \o e.comps.re.err}
             ELSE LET RR == e.comps.re.data IN
                  ok(e.comps.re.meta = e.comps.meta, "metadata_changed")
                  \cup ok(SameDeclaration(NoAux(SelectSeq(C, LAMBDA c : c.kind # "NEED")), NoAux(SelectSeq(RR, LAMBDA c : c.kind # "NEED"))), "components_changed")
                  \cup ok(BagCloseC(SelectSeq(C, LAMBDA c : c.kind = "NEED"), SelectSeq(RR, LAMBDA c : c.kind = "NEED")), "demands_changed")
                  \cup ok(AuxIdsOf(C) = AuxIdsOf(RR) /\ \A id \in AuxIdsOf(C) : \A t \in 1..Len(C[1].v) :
                             Abs(AuxSum(C, id, t) - AuxSum(RR, id, t)) <= 51 * (Len(C) + 1), "auxiliaries_changed"))
       \cup (IF ~e.fac.re.ok THEN {"saved_factors_not_readable:" \o e.fac.re.err}
             ELSE ok(SameFactors(e.fac.orig, e.fac.re.list), "factors_changed")
                  \cup ok(e.fac.re.cm = e.fac.cm, "factor_comments_changed")
                  \cup ok(e.fac.re.meta = e.fac.meta, "factor_metadata_changed"))

\* results of the evaluation from the re-read / saved files against the original evaluation
NVals(e) == ISumSet(LAMBDA i : Len(e.comps[i].v), 1..Len(e.comps))
JudgeEval(e) ==
  IF e.tag = "orig" \/ orig = <<>> \/ orig.case # e.case THEN {}
  ELSE IF ~OK(orig) THEN {}
  ELSE IF ~OK(e) THEN {"saved_files_not_evaluated:" \o e.out.err}
  ELSE LET slack == 2 * TolE(e) + ((NVals(orig) * 3 * Pow10(IMax(e.p, 0))) \div 200) + 2 IN
       \* ratios (RER, f_match) of rounded inputs are not compared; a by-carrier entry that appears or
       \* disappears (the maps omit exact zeros) counts as zero on the other side
       LET fp == {T(k, t) : k \in SeqSet(orig.out.fkeys), t \in StepsOf(orig)} \cup {T(k, t) : k \in SeqSet(e.out.fkeys), t \in StepsOf(e)}
           paths == (DOMAIN orig.out.flat \cup DOMAIN e.out.flat) \ (Ratios \cup fp)
           v0(x, p) == IF HasP(x, p) THEN V(x, p) ELSE 0
           \* a weighted energy BY SERVICE is a share (use of the service / EPB use of the carrier) of the carrier's
           \* weighted energy, which an export credit can make much larger than the use: rounding the inputs to the
           \* printed precision moves it by (rounding / EPB use of the carrier) x magnitude.  Where that bound is not
           \* small (a carrier whose EPB use is a thousandth of the case's magnitude) these paths are not compared.
           uses == {V(orig, Cr(c, "used.epus_an")) : c \in {c \in Crs(orig) : HasP(orig, Cr(c, "used.epus_an")) /\ V(orig, Cr(c, "used.epus_an")) > 0}}
           minUse == IF uses = {} THEN 1 ELSE CHOOSE u \in uses : \A w \in uses : u <= w
           amp == orig.mag \div minUse
           bySrv == {p \in paths : \E c \in Crs(orig) \cup {"bal", "m2"} : \E s \in Services : \E ab \in {"a", "b"} : \E x \in {"ren", "nren", "co2"} :
                                     p = (IF c \in {"bal", "m2"} THEN c ELSE "cr." \o c) \o ".we." \o ab \o "_by_srv." \o s \o "." \o x}
           slackSrv == slack + (amp + 1) * NVals(orig) * ((Pow10(IMax(e.p, 0)) \div 200) + 1)
       IN {"result_differs_after_reload:" \o p : p \in {p \in paths \ bySrv : Abs(v0(e, p) - v0(orig, p)) > slack}}
          \cup (IF amp > 1000 THEN {}
                ELSE {"result_differs_after_reload:" \o p : p \in {p \in bySrv : Abs(v0(e, p) - v0(orig, p)) > slackSrv}})

Init == l = 1 /\ nbad = 0 /\ orig = <<>>
Next ==
  /\ l <= Len(Rec)
  /\ LET e == Rec[l]
         bad == IF e.ev = "RoundTrip" THEN JudgeRT(e) ELSE IF e.ev = "Eval" THEN JudgeEval(e) ELSE {}
     IN /\ (bad # {} => PrintT(<<"VERDICT", ToJson([prop |-> "C18", case |-> e.case, tag |-> e.tag, clauses |-> bad])>>))
        /\ nbad' = nbad + (IF bad = {} THEN 0 ELSE 1)
        /\ orig' = IF e.ev = "Eval" /\ e.tag = "orig" THEN e ELSE orig
  /\ l' = l + 1
Spec == Init /\ [][Next]_vars
Accepted ==
  LET n == TLCGet("stats").diameter - 1 IN
  IF n = Len(Rec) THEN PrintT(<<"TRACE-ACCEPTED", n>>)
  ELSE PrintT(<<"TRACE-REJECTED", n, Len(Rec)>>) /\ FALSE
=============================================================================
