----------------------------- MODULE Trace_C19 -----------------------------
(***************************************************************************)
(* C19: each Cli event is one execution of the real binary for one         *)
(* configuration of spec/Cli.tla (files and argv built by the driver from  *)
(* the configuration; observation = exit status, the three "(origen)"      *)
(* lines, the --json and --oc extracts).  The run conforms when it matches *)
(* one of the outcomes Cli!Allowed(cfg) accepts.                           *)
(***************************************************************************)
EXTENDS Cli, MetaDefs, Json, IOUtils, TLC
Rec == ndJsonDeserialize(IOEnv.TRACE)
VARIABLES l, nbad
vars == <<l, nbad>>

Has_(r, f) == f \in DOMAIN r
\* clauses that an accepted run (exit 0) must satisfy for the allowed outcome o
OkClauses(e, o) ==
  LET ob == e.obs
      ok(c, name) == IF c THEN {} ELSE {name}
      og == ob.origen
      \* the echo and the metadata state a value with two decimals: they agree with the value used when they are
      \* that value rounded (half a printed unit = 5 thousandths); the value USED is compared exactly
      Printed(x, v) == x - v \in -5..5
  IN ok(Has_(og, "area") /\ og.area.origin = o.area.origin /\ Printed(og.area.milli, o.area.milli), "area_echo")
     \cup ok(Has_(og, "kexp") /\ og.kexp.origin = o.kexp.origin /\ Printed(og.kexp.milli, o.kexp.milli), "kexp_echo")
     \cup ok(Has_(og, "fp") /\ og.fp.origin = o.fp.origin /\ og.fp.param = o.fp.param, "factors_echo")
     \cup ok(ob.json_written /\ ob.json.valid, "no_json_result")
     \cup (IF ob.json_written /\ ob.json.valid THEN
             ok(ob.json.arearef = o.area.milli, "area_used")
             \cup ok(ob.json.k_exp = o.kexp.milli, "kexp_used")
             \cup ok(Has_(ob.json, "m2ratio") /\ ob.json.m2ratio - o.area.milli \in -1..1, "results_not_computed_with_area")
             \cup ok(Has_(ob.json, "red1") /\ ob.json.red1 = o.red1, "red1_used")
             \cup ok(Has_(ob.json, "red2") /\ ob.json.red2 = o.red2, "red2_used")
           ELSE {})
     \cup ok(Has_(ob.oc, "CTE_AREAREF") /\ Printed(ob.oc.CTE_AREAREF, o.area.milli), "area_not_recorded_in_metadata")
     \cup ok(Has_(ob.oc, "CTE_KEXP") /\ Printed(ob.oc.CTE_KEXP, o.kexp.milli), "kexp_not_recorded_in_metadata")
     \cup ok(~o.red1given \/ (Has_(ob.oc, "CTE_RED1") /\ ob.oc.CTE_RED1 = o.red1), "red1_not_recorded_in_metadata")
     \cup ok(~o.red2given \/ (Has_(ob.oc, "CTE_RED2") /\ ob.oc.CTE_RED2 = o.red2), "red2_not_recorded_in_metadata")
     \* the location the factors were generated from (option or metadata) is the one the emitted components record;
     \* with a factors file no location is used and nothing is claimed
     \cup ok(o.fp.origin = "archivo" \/ (Has_(ob.oc, "CTE_LOCALIZACION") /\ ob.oc.CTE_LOCALIZACION = o.fp.param),
            "location_not_recorded_in_metadata")

(***************************************************************************)
(* The whole metadata block of the emitted components (--oc) against       *)
(* spec/MetaDefs.tla: it is the block of the input (legacy key names       *)
(* mapped, every line kept in its place, repeated keys too) after          *)
(* set_meta of CTE_RED1, CTE_RED2 (when given), CTE_LOCALIZACION (when the *)
(* factors come from a location), CTE_AREAREF and CTE_KEXP, in that order. *)
(* Values are projected by the driver: [kind, n, t, tri] - a number in     *)
(* thousandths, a text, or a triple of thousandths.  Reported as DRIFT     *)
(* (conformance); the clauses of the property are in OkClauses.            *)
(***************************************************************************)
Num(x) == [kind |-> "num", n |-> x, t |-> "", tri |-> <<>>]
Txt(x) == [kind |-> "text", n |-> 0, t |-> x, tri |-> <<>>]
Tri(x) == [kind |-> "triple", n |-> 0, t |-> "", tri |-> x]
SameValue(a, b) ==
  /\ a.kind = b.kind
  /\ CASE a.kind = "num" -> a.n - b.n \in -5..5          \* two printed decimals
       [] a.kind = "text" -> a.t = b.t
       [] OTHER -> Len(a.tri) = Len(b.tri) /\ \A i \in 1..Len(a.tri) : a.tri[i] - b.tri[i] \in -1..1
SameBlock(a, b) == Len(a) = Len(b) /\ \A i \in 1..Len(a) : a[i][1] = b[i][1] /\ SameValue(a[i][2], b[i][2])
Updates(o) ==
  (IF o.red1given THEN << <<"CTE_RED1", Tri(o.red1)>> >> ELSE <<>>)
  \o (IF o.red2given THEN << <<"CTE_RED2", Tri(o.red2)>> >> ELSE <<>>)
  \o (IF o.fp.origin # "archivo" THEN << <<"CTE_LOCALIZACION", Txt(o.fp.param)>> >> ELSE <<>>)
  \o << <<"CTE_AREAREF", Num(o.area.milli)>>, <<"CTE_KEXP", Num(o.kexp.milli)>> >>
BlockDrift(e) ==
  LET al == Allowed(e.cfg) IN
  IF e.obs.how # "0" \/ ~(\E o \in al : o.exit = 0) \/ ~Has_(e.obs, "oc_block") THEN {}
  ELSE LET o == CHOOSE o \in al : o.exit = 0
           want == Recorded(LoadKeys(e.meta_in), Updates(o))
       IN IF SameBlock(e.obs.oc_block, want) THEN {} ELSE {"emitted_metadata_block_differs_from_specification"}

Judge(e) ==
  LET al == Allowed(e.cfg)
      codes == {o.exit : o \in al}
      ob == e.obs
  IN IF ob.how \notin {"0", "1", "64", "65", "73", "74"} THEN {"abnormal_end:" \o ob.how}
     ELSE IF ob.exit \notin codes THEN {"exit_code:" \o ob.how \o "_expected:" \o ToString(CHOOSE x \in codes : TRUE)}
     ELSE IF ob.exit # 0 THEN
          (IF ob.stderr_empty THEN {"error_not_reported_on_stderr"} ELSE {})
          \cup (IF ob.json_written THEN {"result_written_despite_refusal"} ELSE {})
     ELSE OkClauses(e, CHOOSE o \in al : o.exit = 0)

Init == l = 1 /\ nbad = 0
Next ==
  /\ l <= Len(Rec)
  /\ LET e == Rec[l]
         bad == Judge(e)
         dr == BlockDrift(e)
     IN /\ (bad # {} => PrintT(<<"VERDICT", ToJson([prop |-> "C19", case |-> e.case, tag |-> e.tag, clauses |-> bad])>>))
        /\ (dr # {} => PrintT(<<"DRIFT", ToJson([prop |-> "C19", case |-> e.case, tag |-> e.tag, clauses |-> dr])>>))
        /\ nbad' = nbad + (IF bad = {} THEN 0 ELSE 1)
  /\ l' = l + 1
Spec == Init /\ [][Next]_vars
Accepted ==
  LET n == TLCGet("stats").diameter - 1 IN
  IF n = Len(Rec) THEN PrintT(<<"TRACE-ACCEPTED", n>>)
  ELSE PrintT(<<"TRACE-REJECTED", n, Len(Rec)>>) /\ FALSE
=============================================================================
