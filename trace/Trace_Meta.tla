----------------------------- MODULE Trace_Meta -----------------------------
(***************************************************************************)
(* Behaviours of spec/MetaStore.tla executed on the real Components and    *)
(* Factors types (harness mode `meta`).  A Meta event is one operation     *)
(* with the metadata of both values afterwards and the answers of          *)
(* get_meta / has_meta for every key of the universe.  The trace           *)
(* specification carries the store of the specification (`store`), makes   *)
(* the operation of the event on it with the operators of MetaDefs and     *)
(* requires the recorded stores to be that store, and the recorded answers *)
(* to be Get / Has on it.  After a mismatch the validation goes on from    *)
(* the specification's store.                                              *)
(***************************************************************************)
EXTENDS MetaDefs, Json, IOUtils, TLC
Rec == ndJsonDeserialize(IOEnv.TRACE)
VARIABLES l, nbad, store, cur
vars == <<l, nbad, store, cur>>

Has_(r, f) == f \in DOMAIN r
StepOf(e, s) ==
  CASE e.op.op = "load" -> Load(e.op.lines)
    [] e.op.op = "set" -> Set(s, e.op.k, e.op.v)
    [] e.op.op = "reload" -> Reload(s)
    [] OTHER -> s
AnswersOk(ans, s) == \A k \in DOMAIN ans : ans[k].get = Get(s, k) /\ ans[k].has = Has(s, k)
Judge(e, s2) ==
  IF ~e.ok THEN {"operation_fails:" \o e.err}
  ELSE (IF e.comps = s2 THEN {} ELSE {"components_metadata_differ_from_specification"})
       \cup (IF e.facs = s2 THEN {} ELSE {"factors_metadata_differ_from_specification"})
       \cup (IF AnswersOk(e.cget, s2) /\ AnswersOk(e.fget, s2) THEN {} ELSE {"get_meta_differs_from_specification"})
       \cup (IF e.ndata = 1 /\ e.nfac = 1 THEN {} ELSE {"data_lost_with_the_metadata"})

Init == l = 1 /\ nbad = 0 /\ store = <<>> /\ cur = -1
Next ==
  /\ l <= Len(Rec)
  /\ LET e == Rec[l]
         s0 == IF e.case = cur THEN store ELSE <<>>
         s2 == StepOf(e, s0)
         bad == Judge(e, s2)
     IN /\ (bad # {} => PrintT(<<"VERDICT", ToJson([prop |-> "C18", case |-> e.case, tag |-> e.tag, clauses |-> bad])>>))
        /\ nbad' = nbad + (IF bad = {} THEN 0 ELSE 1)
        /\ store' = s2 /\ cur' = e.case
  /\ l' = l + 1
Spec == Init /\ [][Next]_vars
Accepted ==
  LET n == TLCGet("stats").diameter - 1 IN
  IF n = Len(Rec) THEN PrintT(<<"TRACE-ACCEPTED", n>>)
  ELSE PrintT(<<"TRACE-REJECTED", n, Len(Rec)>>) /\ FALSE
=============================================================================
