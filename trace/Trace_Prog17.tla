---------------------------- MODULE Trace_Prog17 ----------------------------
(* C17 (a written file holds the document of that run only) on executions of the real program against spec/Program.tla: see TraceProg. *)
EXTENDS TraceProg
VARIABLES l, nbad
vars == <<l, nbad>>
Init == l = 1 /\ nbad = 0
Next ==
  /\ l <= Len(Rec)
  /\ LET e == Rec[l]
         bad == Fresh(e)
         dr == Conforms(e)
     IN /\ (bad # {} => PrintT(<<"VERDICT", ToJson([prop |-> "C17", case |-> e.case, tag |-> e.tag, clauses |-> bad])>>))
        /\ (dr # {} => PrintT(<<"DRIFT", ToJson([prop |-> "C17", case |-> e.case, tag |-> e.tag, clauses |-> dr])>>))
        /\ nbad' = nbad + (IF bad = {} THEN 0 ELSE 1)
  /\ l' = l + 1
Spec == Init /\ [][Next]_vars
Accepted ==
  LET n == TLCGet("stats").diameter - 1 IN
  IF n = Len(Rec) THEN PrintT(<<"TRACE-ACCEPTED", n>>)
  ELSE PrintT(<<"TRACE-REJECTED", n, Len(Rec)>>) /\ FALSE
=============================================================================
