---------------------------- MODULE Trace_Triple ----------------------------
(***************************************************************************)
(* The texts of spec/Triple.tla read by the real RenNrenCo2::from_str and  *)
(* by get_meta_rennren (harness mode `triple`).  A panic is a violation of *)
(* C16 (the library returns a value or a typed error); an outcome other    *)
(* than Triple!ParseTriple - accepted / refused, or another triple - is    *)
(* reported as DRIFT (conformance of the grammar).                         *)
(***************************************************************************)
EXTENDS Triple, Json, IOUtils, TLC
Rec == ndJsonDeserialize(IOEnv.TRACE)
VARIABLES l, nbad
vars == <<l, nbad>>

TextOf(e) == [open |-> e.text.open, items |-> e.text.items, close |-> e.text.close]
Same(obs, want) == obs.ok = want.ok /\ (want.ok => obs.v = want.v)
Init == l = 1 /\ nbad = 0
Next ==
  /\ l <= Len(Rec)
  /\ LET e == Rec[l]
         want == ParseTriple(TextOf(e))
         bad == (IF e.parse.panic THEN {"library_Panic_in_triple_from_str"} ELSE {})
                \cup (IF e.meta.panic THEN {"library_Panic_in_get_meta_rennren"} ELSE {})
         dr == (IF ~e.parse.panic /\ ~Same(e.parse, want) THEN {"triple_from_str_differs_from_specification"} ELSE {})
               \cup (IF ~e.meta.panic /\ ~Same(e.meta, want) THEN {"get_meta_rennren_differs_from_specification"} ELSE {})
     IN /\ (bad # {} => PrintT(<<"VERDICT", ToJson([prop |-> "C16", case |-> e.case, tag |-> e.tag, clauses |-> bad])>>))
        /\ (dr # {} => PrintT(<<"DRIFT", ToJson([prop |-> "C16", case |-> e.case, tag |-> e.tag, clauses |-> dr])>>))
        /\ nbad' = nbad + (IF bad = {} THEN 0 ELSE 1)
  /\ l' = l + 1
Spec == Init /\ [][Next]_vars
Accepted ==
  LET n == TLCGet("stats").diameter - 1 IN
  IF n = Len(Rec) THEN PrintT(<<"TRACE-ACCEPTED", n>>)
  ELSE PrintT(<<"TRACE-REJECTED", n, Len(Rec)>>) /\ FALSE
=============================================================================
